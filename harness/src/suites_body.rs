//! Suites that drain bodies made by `serve`: C01, C02, C06, C07 and the `serve` halves of C12
//! and C20.

use crate::common::*;
use crate::gen::*;
use crate::suites_serve::{parse_content_range, status_class};
use std::time::{Duration, UNIX_EPOCH};

#[derive(Clone)]
pub struct BodyCase {
    pub q: HReq,
    pub e: HEntity,
    /// one script per `get_range` call, in call order
    pub scripts: Vec<Vec<Ev>>,
    pub polls: usize,
    /// every script delivers exactly its range and never fails
    pub honest: bool,
    pub shape: String,
}

thread_local! {
    /// run the cases with the segmented data type `Rope` instead of `Bytes`
    static USE_ROPE: std::cell::Cell<bool> = const { std::cell::Cell::new(false) };
}

/// Runs `f` with every `run_case` using an entity whose `Data` is a multi-segment `Buf`.
pub fn with_rope(f: impl FnOnce()) {
    USE_ROPE.with(|r| r.set(true));
    f();
    USE_ROPE.with(|r| r.set(false));
}

/// All ways to cut `bytes` into 1..=max_chunks non-empty chunks.
pub fn compositions(bytes: &[u8], max_chunks: usize) -> Vec<Vec<Vec<u8>>> {
    fn go(rest: &[u8], left: usize, cur: &mut Vec<Vec<u8>>, out: &mut Vec<Vec<Vec<u8>>>) {
        if rest.is_empty() {
            out.push(cur.clone());
            return;
        }
        if left == 0 {
            return;
        }
        for k in 1..=rest.len() {
            cur.push(rest[..k].to_vec());
            go(&rest[k..], left - 1, cur, out);
            cur.pop();
        }
    }
    let mut out = vec![];
    if bytes.is_empty() {
        return vec![vec![]];
    }
    go(bytes, max_chunks, &mut vec![], &mut out);
    out
}

pub fn chunks_to_script(chunks: &[Vec<u8>]) -> Vec<Ev> {
    chunks.iter().map(|c| Ev::Chunk(c.clone())).collect()
}

/// Insert empty chunks / pendings at every gap (variant index selects which).
pub fn decorate(script: &[Ev], variant: usize) -> Vec<Ev> {
    match variant {
        0 => script.to_vec(),
        1 => {
            // an empty chunk before everything and between chunks
            let mut v = vec![];
            for e in script {
                v.push(Ev::Chunk(vec![]));
                v.push(e.clone());
            }
            v
        }
        2 => {
            // pending before each chunk, empty chunk at the end
            let mut v = vec![];
            for e in script {
                v.push(Ev::Pending);
                v.push(e.clone());
            }
            v.push(Ev::Chunk(vec![]));
            v
        }
        _ => {
            let mut v = vec![Ev::Pending, Ev::Pending];
            v.extend_from_slice(script);
            v.push(Ev::Pending);
            v
        }
    }
}

pub fn random_honest(rng: &mut Rng, r: (u64, u64)) -> Vec<Ev> {
    let bytes = content(r.0..r.1);
    let mut v = vec![];
    let mut pos = 0;
    while pos < bytes.len() {
        match rng.below(6) {
            0 => v.push(Ev::Pending),
            1 => v.push(Ev::Chunk(vec![])),
            _ => {
                let k = 1 + rng.usize((bytes.len() - pos).min(40));
                v.push(Ev::Chunk(bytes[pos..pos + k].to_vec()));
                pos += k;
            }
        }
    }
    if rng.chance(1, 4) {
        v.push(Ev::Chunk(vec![]));
    }
    v
}

#[derive(Clone, Copy, Debug, PartialEq, Eq)]
pub enum Fault {
    EarlyEnd,
    ShortChunk,
    Error,
    ExtraByte,
    ExtraChunk,
}

pub const FAULTS: [Fault; 5] = [
    Fault::EarlyEnd,
    Fault::ShortChunk,
    Fault::Error,
    Fault::ExtraByte,
    Fault::ExtraChunk,
];

/// Applies a fault at chunk index `at` of an honest chunk list (`at == len` = after the last).
pub fn apply_fault(chunks: &[Vec<u8>], f: Fault, at: usize, pend: bool) -> Option<Vec<Ev>> {
    let mut v: Vec<Ev> = vec![];
    let n = chunks.len();
    match f {
        Fault::EarlyEnd => {
            if at >= n {
                return None;
            }
            v.extend(chunks_to_script(&chunks[..at]));
            if pend {
                v.push(Ev::Pending);
            }
        }
        Fault::ShortChunk => {
            if at >= n || chunks[at].len() < 2 {
                return None;
            }
            v.extend(chunks_to_script(&chunks[..at]));
            if pend {
                v.push(Ev::Pending);
            }
            v.push(Ev::Chunk(chunks[at][..chunks[at].len() - 1].to_vec()));
        }
        Fault::Error => {
            if at > n {
                return None;
            }
            // an error after the last chunk is still an entity failure
            v.extend(chunks_to_script(&chunks[..at.min(n)]));
            if pend {
                v.push(Ev::Pending);
            }
            v.push(Ev::Err);
        }
        Fault::ExtraByte => {
            if at >= n {
                return None;
            }
            for (i, c) in chunks.iter().enumerate() {
                if i == at && pend {
                    v.push(Ev::Pending);
                }
                let mut c = c.clone();
                if i == at {
                    c.push(0xEE);
                }
                v.push(Ev::Chunk(c));
            }
        }
        Fault::ExtraChunk => {
            if at != n {
                return None;
            }
            v.extend(chunks_to_script(chunks));
            if pend {
                v.push(Ev::Pending);
            }
            v.push(Ev::Chunk(vec![0xEE]));
        }
    }
    Some(v)
}

fn ent(len: u64) -> HEntity {
    let mut e = HEntity::new(len);
    e.etag = Some(b"\"s\"".to_vec());
    // what `add_headers` supplies rotates (it is copied into every multipart part, so it is part
    // of every announced length): nothing, one line, a repeated name, names `serve` uses itself
    // (not Content-Length / Content-Range: an entity that supplies those itself changes what is
    // announced, which is its own business), a long value
    static TICK: std::sync::atomic::AtomicU64 = std::sync::atomic::AtomicU64::new(0);
    let t = TICK.fetch_add(1, std::sync::atomic::Ordering::Relaxed);
    e.headers = match (t.wrapping_mul(0x9E37_79B9_7F4A_7C15) >> 40) % 8 {
        0 | 1 => vec![],
        // (the shortest header lines there are: a one-letter name, an empty value)
        2 => vec![("a".into(), vec![])],
        3 => vec![("content-type".into(), b"text/plain".to_vec())],
        4 => vec![("x-ent-a".into(), b"1".to_vec()), ("x-ent-a".into(), b"22".to_vec()), ("x-ent-a".into(), b"".to_vec())],
        5 => vec![("set-cookie".into(), b"a=1".to_vec()), ("content-type".into(), b"text/plain".to_vec()), ("set-cookie".into(), b"b=2".to_vec())],
        6 => vec![("vary".into(), b"accept-encoding".to_vec()), ("accept-ranges".into(), b"none".to_vec())],
        _ => vec![("x-long".into(), vec![b'v'; 300])],
    };
    e
}

/// The ranges a request resolves to, read off an honest reference run.
pub fn ranges_of(o: &Observed) -> Vec<(u64, u64)> {
    match &o.plan {
        Plan::Exact(a, b) => vec![(*a, *b)],
        Plan::Multipart(_, rs, _) => rs.clone(),
        _ => vec![],
    }
}

pub struct Ran {
    pub o: Observed,
    pub recs: Vec<PollRec>,
    pub calls: Vec<(u64, u64)>,
    /// polls of an entity stream after it had reported its end
    pub over: u64,
}

/// Runs a case against the real code and emits the SERVE-independent `BODY` line.
pub fn run_case(em: &mut Emit, c: &BodyCase, predf: &dyn Fn(&BodyCase, &Ran) -> String) {
    let o = observe_serve(&c.q, &c.e);
    let rope = USE_ROPE.with(|r| r.get());
    let ran = match if rope { run_body_rope(&c.q, &c.e, &c.scripts, c.polls) } else { run_body(&c.q, &c.e, &c.scripts, c.polls) } {
        Some((recs, calls)) => Ran { o, recs, calls, over: OVERPOLLS.with(|c| c.get()) },
        None => {
            em.case(
                &serve_line(&c.q, &c.e, o.now),
                "PANIC",
                "FAIL:serve panicked",
                "panic",
            );
            return;
        }
    };
    // whatever the property: polling a body never panics, at any poll (not only up to the first
    // terminal event)
    let p = if ran.recs.iter().any(|r| r.out == Out::Panic) {
        "FAIL:panic while polling the body".to_string()
    } else {
        predf(c, &ran)
    };
    let once = matches!(ran.o.plan, Plan::Once(_));
    let multi = matches!(ran.o.plan, Plan::Multipart(..));
    let outcome = ran
        .recs
        .iter()
        .find(|r| r.out.is_terminal() || r.out == Out::Panic)
        .map(|r| match &r.out {
            Out::End => "end",
            Out::Panic => "panic",
            Out::ErrEntity => "ee",
            Out::ErrShort(_) => "es",
            Out::ErrLong(_) => "el",
            _ => "e?",
        })
        .unwrap_or("none");
    let class = format!("{}{}:{}:{}", if rope { "rope:" } else { "" }, c.shape, status_class(&ran.o), outcome);
    match &ran.o.plan {
        Plan::MultipartHead(..) | Plan::Unknown(_) => {
            // body too large to model chunk by chunk: only the head is compared
            em.case(&serve_line(&c.q, &c.e, ran.o.now), &ran.o.show(), &p, &class);
        }
        plan => {
            em.case(
                &body_line(plan, &c.scripts, c.polls),
                &show_body(&ran.recs, once, if multi { Some(&ran.calls) } else { None }, ran.over),
                &p,
                &class,
            );
        }
    }
}

// ---------------------------------------------------------------------------------------
// Predicates

fn announced(r: &Ran) -> Option<u64> {
    let cl = if r.o.calls.iter().any(|c| matches!(c, Call::GetRange(..))) || matches!(r.o.plan, Plan::Multipart(..)) {
        r.o.header("content-length")
    } else {
        None // HEAD (or an error response): the body is not the representation
    };
    match cl {
        Some(v) => std::str::from_utf8(v).ok()?.parse().ok(),
        None => r.recs.first().and_then(|p| {
            if p.upper == Some(p.lower) {
                Some(p.lower)
            } else {
                None
            }
        }),
    }
}

fn delivered_until_terminal(r: &Ran) -> (u64, Option<Out>) {
    let mut sum = 0u64;
    for p in &r.recs {
        match &p.out {
            Out::Data(d) => sum += d.len() as u64,
            o if o.is_terminal() || *o == Out::Panic => return (sum, Some(o.clone())),
            _ => {}
        }
    }
    (sum, None)
}

pub fn pred_c01(c: &BodyCase, r: &Ran) -> String {
    let ann = match announced(r) {
        Some(a) => a,
        None => return "FAIL:no announced length (no Content-Length and no exact hint)".into(),
    };
    let cl = r.o.header("content-length");
    let needs_cl = matches!(r.o.status, 200 | 206);
    if needs_cl != cl.is_some() {
        return format!("FAIL:Content-Length presence wrong for {}", r.o.status);
    }
    let first = &r.recs[0];
    if first.upper != Some(first.lower) || first.lower != ann {
        return format!(
            "FAIL:initial size hint {}..{:?} is not exactly the announced {}",
            first.lower, first.upper, ann
        );
    }
    let mut total = 0u64;
    for p in &r.recs {
        if let Out::Data(d) = &p.out {
            total += d.len() as u64;
        }
        if total > ann {
            return format!("FAIL:delivered {} > announced {}", total, ann);
        }
    }
    let (sum, term) = delivered_until_terminal(r);
    if term == Some(Out::Panic) {
        return "FAIL:panic while draining".into();
    }
    if c.honest && c.q.method == "GET" {
        match term {
            Some(Out::End) => {
                if sum != ann {
                    return format!("FAIL:clean end after {} bytes, announced {}", sum, ann);
                }
            }
            Some(o) => return format!("FAIL:honest entity but body reported {:?}", o),
            None => return "FAIL:no terminal event within the poll budget".into(),
        }
    }
    "ok".into()
}

/// Independent multipart/byteranges splitter: returns for each part
/// (content-range line value, other header lines, payload) given the payload lengths implied
/// by the Content-Range lines.
pub fn split_multipart(body: &[u8]) -> Result<Vec<(Vec<u8>, Vec<Vec<u8>>, Vec<u8>)>, String> {
    let mut parts = vec![];
    let mut rest = body;
    loop {
        if rest == b"\r\n--B--\r\n" {
            return Ok(parts);
        }
        rest = rest
            .strip_prefix(b"\r\n--B\r\n")
            .ok_or_else(|| format!("expected delimiter at {} bytes before the end", rest.len()))?;
        let mut headers: Vec<Vec<u8>> = vec![];
        loop {
            let eol = rest
                .windows(2)
                .position(|w| w == b"\r\n")
                .ok_or("unterminated header line")?;
            let line = &rest[..eol];
            rest = &rest[eol + 2..];
            if line.is_empty() {
                break;
            }
            headers.push(line.to_vec());
        }
        let cr = headers
            .first()
            .and_then(|h| h.strip_prefix(b"Content-Range: "))
            .ok_or("first part header is not Content-Range")?
            .to_vec();
        let (a, b, _l) = parse_content_range(&cr).ok_or("bad Content-Range in part")?;
        let n = (b + 1 - a) as usize;
        if rest.len() < n {
            return Err("part payload shorter than its Content-Range".into());
        }
        parts.push((cr, headers[1..].to_vec(), rest[..n].to_vec()));
        rest = &rest[n..];
    }
}

pub fn pred_c02(c: &BodyCase, r: &Ran) -> String {
    if !c.honest || c.q.method != "GET" {
        return "ok".into();
    }
    let (_, term) = delivered_until_terminal(r);
    if term != Some(Out::End) {
        return format!("FAIL:honest entity, body did not end cleanly: {:?}", term);
    }
    let body: Vec<u8> = r
        .recs
        .iter()
        .filter_map(|p| match &p.out {
            Out::Data(d) => Some(d.clone()),
            _ => None,
        })
        .flatten()
        .collect();
    let len = c.e.len;
    match r.o.status {
        200 => {
            if body != content(0..len) {
                return "FAIL:200 body is not the complete entity".into();
            }
            if r.calls != vec![(0, len)] {
                return format!("FAIL:200 fetched {:?}", r.calls);
            }
        }
        206 if r.o.header("content-range").is_some() => {
            let (a, b, l) = match parse_content_range(r.o.header("content-range").unwrap()) {
                Some(x) => x,
                None => return "FAIL:unparseable Content-Range".into(),
            };
            if !(a <= b && b < l && l == len as u128) {
                return format!("FAIL:Content-Range {}-{}/{} violates a<=b<L=len", a, b, l);
            }
            if r.calls != vec![(a as u64, b as u64 + 1)] {
                return format!("FAIL:fetched {:?} for Content-Range {}-{}", r.calls, a, b);
            }
            if body != content(a as u64..b as u64 + 1) {
                return "FAIL:206 body is not entity bytes a..=b".into();
            }
        }
        206 => {
            let parts = match split_multipart(&body) {
                Ok(p) => p,
                Err(e) => return format!("FAIL:multipart body malformed: {}", e),
            };
            for (cr, _, payload) in &parts {
                let (a, b, l) = parse_content_range(cr).unwrap();
                if !(a <= b && b < l && l == len as u128) {
                    return "FAIL:part Content-Range violates a<=b<L".into();
                }
                if *payload != content(a as u64..b as u64 + 1) {
                    return "FAIL:part payload is not entity bytes a..=b".into();
                }
            }
        }
        _ => {
            // no entity bytes may appear at all
            if !r.calls.is_empty() {
                return format!("FAIL:status {} but entity bytes were fetched", r.o.status);
            }
        }
    }
    "ok".into()
}

pub fn pred_c06(c: &BodyCase, r: &Ran, want: &[(u64, u64)]) -> String {
    if r.o.status != 206 || r.o.header("content-range").is_some() {
        return format!(
            "FAIL:expected a multipart 206 for {:?}: {}",
            c.q.range.as_ref().map(|r| String::from_utf8_lossy(r).to_string()),
            r.o.show()
        );
    }
    match r.o.header("content-type") {
        Some(ct) if ct.starts_with(b"multipart/byteranges") && ct.windows(9).any(|w| w == b"boundary=") => {}
        _ => return "FAIL:Content-Type is not multipart/byteranges with a boundary".into(),
    }
    if c.q.method != "GET" {
        return "ok".into();
    }
    let body: Vec<u8> = r
        .recs
        .iter()
        .filter_map(|p| match &p.out {
            Out::Data(d) => Some(d.clone()),
            _ => None,
        })
        .flatten()
        .collect();
    let (_, term) = delivered_until_terminal(r);
    if term != Some(Out::End) {
        return format!("FAIL:multipart body did not end cleanly: {:?}", term);
    }
    let cl: Option<u64> = r
        .o
        .header("content-length")
        .and_then(|v| std::str::from_utf8(v).ok()?.parse().ok());
    if cl != Some(body.len() as u64) {
        return format!("FAIL:Content-Length {:?} but body has {} bytes", cl, body.len());
    }
    let parts = match split_multipart(&body) {
        Ok(p) => p,
        Err(e) => return format!("FAIL:multipart body malformed: {}", e),
    };
    if parts.len() != want.len() {
        return format!("FAIL:{} parts, expected {}", parts.len(), want.len());
    }
    let eh: Vec<Vec<u8>> = if c.q.if_range.is_none() {
        c.e.header_map()
            .iter()
            .map(|(k, v)| [k.as_str().as_bytes(), b": ", v.as_bytes()].concat())
            .collect()
    } else {
        vec![]
    };
    for ((cr, hs, payload), (a, b)) in parts.iter().zip(want) {
        let expect = format!("bytes {}-{}/{}", a, b - 1, c.e.len);
        if cr != expect.as_bytes() {
            return format!("FAIL:part Content-Range {:?}, expected {}", String::from_utf8_lossy(cr), expect);
        }
        if *hs != eh {
            return "FAIL:part does not carry exactly the entity's headers".into();
        }
        if *payload != content(*a..*b) {
            return "FAIL:part payload is not entity bytes a..=b".into();
        }
    }
    "ok".into()
}

pub fn pred_c07(c: &BodyCase, r: &Ran) -> String {
    let ann = match announced(r) {
        Some(a) => a,
        None => return "FAIL:no announced length".into(),
    };
    let mut total = 0u64;
    for p in &r.recs {
        if let Out::Data(d) = &p.out {
            total += d.len() as u64;
        }
        if total > ann {
            return format!("FAIL:delivered {} > announced {}", total, ann);
        }
    }
    let (_, term) = delivered_until_terminal(r);
    match term {
        Some(Out::Panic) => "FAIL:panic".into(),
        None => "FAIL:no terminal event within the poll budget (livelock?)".into(),
        Some(Out::End) if !c.honest => "FAIL:faulty entity stream but the body ended cleanly".into(),
        Some(o) if c.honest && o != Out::End => format!("FAIL:honest stream but {:?}", o),
        _ => "ok".into(),
    }
}

pub fn pred_c12(c: &BodyCase, r: &Ran) -> String {
    // exact hints that equal what is still to come on a clean end; eos => only END afterwards
    let (_, term) = delivered_until_terminal(r);
    let clean = term == Some(Out::End);
    let n = r.recs.len();
    let mut suffix = vec![0u64; n + 1];
    for i in (0..n).rev() {
        suffix[i] = suffix[i + 1]
            + match &r.recs[i].out {
                Out::Data(d) => d.len() as u64,
                _ => 0,
            };
    }
    for (i, p) in r.recs.iter().enumerate() {
        if p.out == Out::Panic {
            return "FAIL:panic".into();
        }
        if p.upper != Some(p.lower) {
            return format!("FAIL:hint not exact at poll {}", i);
        }
        if clean && c.honest && p.lower != suffix[i] {
            return format!(
                "FAIL:hint {} at poll {} but {} bytes still came before the clean end",
                p.lower, i, suffix[i]
            );
        }
        // The property's proviso (an entity that honours its contract) covers streams of the wrong
        // length: once the body itself has found the stream too long or too short, or has
        // delivered every announced byte, nothing is claimed. A stream that merely reported an
        // error has broken no length contract: while announced bytes are still owed and the body has
        // given no such verdict, "end of stream" followed by data or an error is a lie.
        let owed = announced(r).map_or(false, |a| {
            let before: u64 = r.recs[..i].iter().map(|x| if let Out::Data(d) = &x.out { d.len() as u64 } else { 0 }).sum();
            before < a
        }) && !r.recs[..i].iter().any(|x| matches!(x.out, Out::ErrShort(_) | Out::ErrLong(_) | Out::ErrOther(_)));
        if p.eos && (c.honest || owed) {
            for l in &r.recs[i..] {
                // an empty frame or Pending delivers neither data nor an error
                let harmless = matches!(&l.out, Out::End | Out::Pending)
                    || matches!(&l.out, Out::Data(d) if d.is_empty());
                if !harmless {
                    return format!("FAIL:is_end_stream at poll {} but later {:?}", i, l.out);
                }
            }
        }
    }
    "ok".into()
}

pub fn pred_c20(_c: &BodyCase, r: &Ran) -> String {
    let mut seen = false;
    for (i, p) in r.recs.iter().enumerate() {
        if p.out == Out::Panic {
            return format!("FAIL:panic at poll {}", i);
        }
        if seen {
            if let Out::Data(d) = &p.out {
                if !d.is_empty() {
                    return format!("FAIL:data at poll {} after a terminal event", i);
                }
            }
        }
        if p.out.is_terminal() {
            seen = true;
        }
    }
    "ok".into()
}

// ---------------------------------------------------------------------------------------
// Case generators

/// Shapes: complete 200, single 206, multipart of three ranges.
fn shapes() -> Vec<(&'static str, u64, Option<Vec<u8>>)> {
    vec![
        ("200", 5, None),
        ("206", 300, Some(b"bytes=7-11".to_vec())),
        ("mp3", 1000, Some(b"bytes=2-5,0-2,996-".to_vec())),
        ("mp2", 1000, Some(b"bytes=0-2,997-".to_vec())),
        ("mp4", 2000, Some(b"bytes=1-2,4-6,8-9,1998-".to_vec())),
        // the same range twice in a row, then another one
        ("mpdup", 1000, Some(b"bytes=300-303,300-303,20-22".to_vec())),
    ]
}

pub fn honest_cases(rng: &mut Rng, thorough: bool) -> Vec<BodyCase> {
    let mut v = vec![];
    // exhaustive chunkings of small ranges for every shape
    for (name, len, range) in shapes() {
        let mut q = HReq::get();
        q.range = range.clone();
        let e = ent(len);
        let o = observe_serve(&q, &e);
        let rs = ranges_of(&o);
        let per_range: Vec<Vec<Vec<Vec<u8>>>> = rs
            .iter()
            .map(|&(a, b)| compositions(&content(a..b), 4))
            .collect();
        // vary one range at a time, others in one chunk
        for (i, comps) in per_range.iter().enumerate() {
            for comp in comps {
                for variant in 0..4 {
                    let scripts: Vec<Vec<Ev>> = rs
                        .iter()
                        .enumerate()
                        .map(|(j, &(a, b))| {
                            if j == i {
                                decorate(&chunks_to_script(comp), variant)
                            } else {
                                vec![Ev::Chunk(content(a..b))]
                            }
                        })
                        .collect();
                    v.push(BodyCase {
                        q: q.clone(),
                        e: e.clone(),
                        polls: scripts.iter().map(|s| s.len()).sum::<usize>() + 2 * rs.len() + 5,
                        scripts,
                        honest: true,
                        shape: name.into(),
                    });
                }
            }
        }
    }
    // requests from the C03-C05 generators, entity lengths at the boundaries
    let lens: [u64; 13] = [
        0,
        1,
        2,
        239,
        240,
        241,
        1 << 32,
        1 << 63,
        u64::MAX,
        1_000_000_000_000_000,
        10_000_000_000_000_000,
        999_999_999_999_999_999,
        10_000_000_000_000_000_000,
    ];
    let n = if thorough { 100_000 } else { 3_000 };
    for _ in 0..n {
        let len = *rng.pick(&lens);
        let mut e = ent(len);
        if rng.chance(1, 2) {
            e.mtime = Some(UNIX_EPOCH + Duration::new(crate::suites_serve::T0, 0));
        }
        if rng.chance(1, 3) {
            e.headers = vec![("x-ent-a".into(), b"1".to_vec())];
        }
        let mut q = HReq::get();
        if rng.chance(1, 8) {
            q.method = (*rng.pick(&["HEAD", "POST"])).into();
        }
        match rng.below(6) {
            0 => {}
            1 => q.range = Some(malformed_range(rng)),
            _ => {
                let k = 1 + rng.usize(3);
                // keep ranges small so that they can be drained
                let specs: Vec<RenderedSpec> = (0..k)
                    .map(|_| {
                        let a = if len > 1_000_000 && rng.chance(1, 2) {
                            // just below a power of ten (digit-width boundary)
                            let mut p = 10u64.pow(6 + rng.below(14) as u32);
                            while p >= len {
                                p /= 10;
                            }
                            p - 1 - rng.below(30)
                        } else if len > 0 {
                            rng.below(len)
                        } else {
                            0
                        } as u128;
                        let w = rng.below(50) as u128;
                        plain(match rng.below(4) {
                            0 => Spec::Suffix(w),
                            1 if len < (1 << 20) => Spec::From(a),
                            _ => Spec::FromTo(a, a + w),
                        })
                    })
                    .collect();
                q.range = Some(render_specs(&specs));
            }
        }
        if rng.chance(1, 6) {
            q.if_range = Some(rng.pick(&[&b"\"s\""[..], b"\"t\""]).to_vec());
        }
        if rng.chance(1, 8) {
            q.if_none_match = Some(rng.pick(&[&b"\"s\""[..], b"\"t\"", b"*"]).to_vec());
        }
        if rng.chance(1, 8) {
            q.if_match = Some(rng.pick(&[&b"\"s\""[..], b"\"t\"", b"oops"]).to_vec());
        }
        let o = observe_serve(&q, &e);
        let rs = ranges_of(&o);
        if rs.iter().any(|&(a, b)| b - a > 4096) || matches!(o.plan, Plan::MultipartHead(..)) {
            // cannot drain honestly; covered by the head-only comparison of C03/C06
            continue;
        }
        let scripts: Vec<Vec<Ev>> = rs.iter().map(|&r| random_honest(rng, r)).collect();
        v.push(BodyCase {
            q,
            e,
            polls: scripts.iter().map(|s| s.len()).sum::<usize>() + 2 * rs.len() + 5,
            scripts,
            honest: true,
            shape: "rand".into(),
        });
    }
    v
}

/// Keeps about one case in `k`, chosen by a hash of the index: a fixed stride falls into step
/// with the nested loops that build the case lists and can drop a whole kind of case.
fn thin(i: usize, k: u64) -> bool {
    let mut z = (i as u64).wrapping_add(0x9E3779B97F4A7C15);
    z = (z ^ (z >> 30)).wrapping_mul(0xBF58476D1CE4E5B9);
    z = (z ^ (z >> 27)).wrapping_mul(0x94D049BB133111EB);
    (z ^ (z >> 31)) % k == 0
}

/// Multipart bodies with very many parts (`k` two-byte ranges of a large entity), honest, and with
/// an entity error in one part; polled well past the end.
pub fn many_parts_cases() -> Vec<BodyCase> {
    let mut v = vec![];
    for k in [255usize, 256, 257, 300] {
        let len = 1u64 << 20;
        let mut q = HReq::get();
        q.range = Some(crate::suites_serve::many_ranges(k, len));
        let e = ent(len);
        let o = observe_serve(&q, &e);
        let rs = ranges_of(&o);
        for fault_at in [None, Some(0usize), Some(k / 2), Some(k - 1)] {
            let scripts: Vec<Vec<Ev>> = rs
                .iter()
                .enumerate()
                .map(|(j, &(a, b))| if Some(j) == fault_at { vec![Ev::Chunk(content(a..a + 1)), Ev::Err] } else { vec![Ev::Chunk(content(a..b))] })
                .collect();
            v.push(BodyCase {
                q: q.clone(),
                e: e.clone(),
                polls: 3 * k + 12,
                scripts,
                honest: fault_at.is_none(),
                shape: format!("mp{}:{}", k, if fault_at.is_some() { "err" } else { "honest" }),
            });
        }
    }
    v
}

/// Two faults in one multipart body that cancel out in the total: one part's stream `k` bytes
/// short, another's `k` bytes long (either order). Each part has its own length to honour.
pub fn compensating_fault_cases() -> Vec<BodyCase> {
    let mut v = vec![];
    for (name, len, range) in shapes() {
        let mut q = HReq::get();
        q.range = range.clone();
        let e = ent(len);
        let o = observe_serve(&q, &e);
        let rs = ranges_of(&o);
        if rs.len() < 2 {
            continue;
        }
        for i in 0..rs.len() {
            for j in 0..rs.len() {
                if i == j {
                    continue;
                }
                for k in [1u64, 2] {
                    if rs[i].1 - rs[i].0 <= k {
                        continue;
                    }
                    for split in [false, true] {
                        let scripts: Vec<Vec<Ev>> = rs
                            .iter()
                            .enumerate()
                            .map(|(x, &(a, b))| {
                                if x == i {
                                    // k bytes short
                                    vec![Ev::Chunk(content(a..b - k))]
                                } else if x == j {
                                    // k bytes long: in the last chunk, or as a chunk of its own
                                    let mut extra = content(a..b);
                                    if split {
                                        vec![Ev::Chunk(extra), Ev::Chunk(vec![0xEE; k as usize])]
                                    } else {
                                        extra.extend(std::iter::repeat(0xEE).take(k as usize));
                                        vec![Ev::Chunk(extra)]
                                    }
                                } else {
                                    vec![Ev::Chunk(content(a..b))]
                                }
                            })
                            .collect();
                        v.push(BodyCase {
                            q: q.clone(),
                            e: e.clone(),
                            polls: 4 * rs.len() + 8,
                            scripts,
                            honest: false,
                            shape: format!("{}:short{}:long{}:compensating", name, i, j),
                        });
                    }
                }
            }
        }
    }
    v
}

/// Cuts every script after its first error: a stream that stays failed once it has failed (the
/// proviso of C20, and the "failing stream" of C07).
pub fn stay_failed(scripts: &mut [Vec<Ev>]) {
    for s in scripts.iter_mut() {
        if let Some(k) = s.iter().position(|e| *e == Ev::Err) {
            s.truncate(k + 1);
        }
    }
}

/// Streams with a transient failure: one or two errors somewhere, then the rest of the range all
/// the same (what `ChunkedReadFile` does when a file shrinks and grows back). For the properties
/// that make no assumption about streams staying failed (C01's "never more than announced", C12).
pub fn transient_cases() -> Vec<BodyCase> {
    let mut v = vec![];
    for (name, len, range) in shapes() {
        let mut q = HReq::get();
        q.range = range.clone();
        let e = ent(len);
        let o = observe_serve(&q, &e);
        let rs = ranges_of(&o);
        for (i, &(a, b)) in rs.iter().enumerate() {
            for comp in compositions(&content(a..b), 3) {
                for at in 0..=comp.len() {
                    for errs in [1usize, 2] {
                        let mut faulty: Vec<Ev> = comp[..at].iter().map(|c| Ev::Chunk(c.clone())).collect();
                        faulty.extend(std::iter::repeat(Ev::Err).take(errs));
                        faulty.extend(comp[at..].iter().map(|c| Ev::Chunk(c.clone())));
                        let scripts: Vec<Vec<Ev>> = rs
                            .iter()
                            .enumerate()
                            .map(|(j, &(x, y))| if j == i { faulty.clone() } else { vec![Ev::Chunk(content(x..y))] })
                            .collect();
                        v.push(BodyCase {
                            q: q.clone(),
                            e: e.clone(),
                            polls: scripts.iter().map(|s| s.len()).sum::<usize>() + 2 * rs.len() + 6,
                            scripts,
                            honest: false,
                            shape: format!("{}:p{}:transient", name, i),
                        });
                    }
                }
            }
        }
    }
    v
}

pub fn fault_cases(rng: &mut Rng, thorough: bool) -> Vec<BodyCase> {
    let mut v = fault_cases_raw(rng, thorough);
    for c in v.iter_mut() {
        stay_failed(&mut c.scripts);
    }
    v
}

fn fault_cases_raw(rng: &mut Rng, thorough: bool) -> Vec<BodyCase> {
    let mut v = vec![];
    for (name, len, range) in shapes() {
        let mut q = HReq::get();
        q.range = range.clone();
        let e = ent(len);
        let o = observe_serve(&q, &e);
        let rs = ranges_of(&o);
        for (i, &(a, b)) in rs.iter().enumerate() {
            let bytes = content(a..b);
            // cap the exhaustive part at 4 chunks
            for comp in compositions(&bytes, 4) {
                for f in FAULTS {
                    for at in 0..=comp.len() {
                        for pend in [false, true] {
                            let Some(faulty) = apply_fault(&comp, f, at, pend) else {
                                continue;
                            };
                            let scripts: Vec<Vec<Ev>> = rs
                                .iter()
                                .enumerate()
                                .map(|(j, &(x, y))| {
                                    if j == i {
                                        faulty.clone()
                                    } else {
                                        vec![Ev::Chunk(content(x..y))]
                                    }
                                })
                                .collect();
                            v.push(BodyCase {
                                q: q.clone(),
                                e: e.clone(),
                                polls: scripts.iter().map(|s| s.len()).sum::<usize>()
                                    + 2 * rs.len()
                                    + 7,
                                scripts,
                                honest: false,
                                shape: format!("{}:p{}:{:?}", name, i, f),
                            });
                        }
                    }
                }
            }
        }
    }
    // random faults on longer streams, with empty chunks and pendings mixed in
    let n = if thorough { 100_000 } else { 2_000 };
    for _ in 0..n {
        let (name, len, range) = shapes()[rng.usize(5)].clone();
        let mut q = HReq::get();
        q.range = range;
        let e = ent(len);
        let o = observe_serve(&q, &e);
        let rs = ranges_of(&o);
        let victim = rng.usize(rs.len());
        let scripts: Vec<Vec<Ev>> = rs
            .iter()
            .enumerate()
            .map(|(j, &r)| {
                let mut s = random_honest(rng, r);
                if j == victim {
                    match rng.below(4) {
                        0 => {
                            // cut
                            let k = rng.usize(s.len().max(1));
                            s.truncate(k);
                            // make sure it is really short
                            let have: usize = s
                                .iter()
                                .map(|e| if let Ev::Chunk(c) = e { c.len() } else { 0 })
                                .sum();
                            if have as u64 == r.1 - r.0 {
                                s.pop();
                            }
                        }
                        1 => {
                            let k = rng.usize(s.len() + 1);
                            s.insert(k, Ev::Err);
                        }
                        2 => s.push(Ev::Chunk(vec![1])),
                        _ => {
                            let k = rng.usize(s.len() + 1);
                            s.insert(k, Ev::Chunk(vec![9, 9]));
                        }
                    }
                }
                s
            })
            .collect();
        v.push(BodyCase {
            q,
            e,
            polls: scripts.iter().map(|s| s.len()).sum::<usize>() + 2 * rs.len() + 7,
            scripts,
            honest: false,
            shape: format!("{}:rand", name),
        });
    }
    v
}

/// Bodies of several hundred small frames read to the end INSIDE a tokio task without ever
/// yielding (`block_on`, a spawned task, current-thread and multi-thread runtimes): where the
/// runtime's per-task state (cooperative budget, thread-locals of the worker) is what it is in
/// production. Every byte announced must arrive, in order, before the clean end.
pub fn tokio_task_cases(em: &mut Emit) {
    use http_body::Body as _;
    for multi_thread in [false, true] {
        let rt = if multi_thread {
            tokio::runtime::Builder::new_multi_thread().worker_threads(2).enable_all().build().unwrap()
        } else {
            tokio::runtime::Builder::new_current_thread().enable_all().build().unwrap()
        };
        for (range, want) in [
            (None, vec![(0u64, 12_000u64)]),
            (Some("bytes=100-1099"), vec![(100, 1100)]),
            (Some("bytes=0-399, 500-1199"), vec![(0, 400), (500, 1200)]),
        ] {
            for spawned in [false, true] {
                let mut e = HEntity::new(12_000);
                e.etag = Some(b"\"s\"".to_vec());
                // 3-byte chunks: 400 frames and more
                let scripts: Vec<Vec<Ev>> = want.iter().map(|(a, b)| (*a..*b).step_by(3).map(|p| Ev::Chunk(content(p..(p + 3).min(*b)))).collect()).collect();
                let e = e.fresh(scripts);
                let mut q = HReq::get();
                q.dress = 0;
                q.range = range.map(|r| r.as_bytes().to_vec());
                let req = q.build();
                let fut = async move {
                    let resp = http_serve::serve(e, &req);
                    let announced: Option<u64> = resp.headers().get("content-length").and_then(|v| v.to_str().ok()).and_then(|v| v.parse().ok());
                    let mut body = Box::pin(resp.into_body());
                    let mut got: Vec<u8> = vec![];
                    let mut end = "no end within 100000 frames";
                    for _ in 0..100_000 {
                        match std::future::poll_fn(|cx| body.as_mut().poll_frame(cx)).await {
                            Some(Ok(f)) => got.extend_from_slice(&f.into_data().map(|d| d.to_vec()).unwrap_or_default()),
                            Some(Err(_)) => {
                                end = "error";
                                break;
                            }
                            None => {
                                end = "clean end";
                                break;
                            }
                        }
                    }
                    (announced, got, end)
                };
                let r = std::panic::catch_unwind(std::panic::AssertUnwindSafe(|| {
                    if spawned {
                        rt.block_on(async { tokio::spawn(fut).await.ok() })
                    } else {
                        Some(rt.block_on(fut))
                    }
                }));
                let (ok, why) = match r {
                    Ok(Some((announced, got, end))) => {
                        // the entity bytes must be there in order (a multipart body carries them between its part headers)
                        let mut pos = 0usize;
                        let mut all = true;
                        for (a, b) in &want {
                            let needle = content(*a..*b);
                            match got[pos..].windows(needle.len()).position(|w| w == &needle[..]) {
                                Some(i) => pos += i + needle.len(),
                                None => all = false,
                            }
                        }
                        if end != "clean end" {
                            (false, format!("{} after {} bytes", end, got.len()))
                        } else if announced != Some(got.len() as u64) {
                            (false, format!("clean end after {} bytes, {:?} announced", got.len(), announced))
                        } else if !all {
                            (false, "the body ended cleanly with its announced length but bytes of the entity are missing from it".to_string())
                        } else {
                            (true, String::new())
                        }
                    }
                    _ => (false, "panic".to_string()),
                };
                em.pred_only(
                    &format!("12000-byte entity in 3-byte chunks, Range {:?}, read to the end inside a tokio task ({} runtime, {})", range, if multi_thread { "multi-thread" } else { "current-thread" }, if spawned { "spawned" } else { "block_on" }),
                    &pred(ok, || why.clone()),
                    "tokio-task",
                );
            }
        }
    }
}

pub fn c01(em: &mut Emit, thorough: bool, seed: u64) {
    tokio_task_cases(em);
    let mut rng = Rng::new(seed ^ 0xC01);
    for c in honest_cases(&mut rng, thorough) {
        run_case(em, &c, &pred_c01);
    }
    // "no body ever delivers more than was announced" also under faults
    for c in fault_cases(&mut rng, false).into_iter().enumerate().filter(|(i, _)| thin(*i, 3)).map(|(_, c)| c) {
        run_case(em, &c, &pred_c01);
    }
    for c in transient_cases().into_iter().enumerate().filter(|(i, _)| thin(*i, 2)).map(|(_, c)| c) {
        run_case(em, &c, &pred_c01);
    }
    // multipart bodies around 2^64 bytes: the announced length is the layout's, or the answer is 413
    c06_huge(em, &mut rng, if thorough { 5_000 } else { 500 });
    for c in many_parts_cases() {
        run_case(em, &c, &pred_c01);
    }
    // the same with an entity whose data type is a multi-segment `Buf`
    with_rope(|| {
        let mut rng = Rng::new(seed ^ 0xC01 ^ 0x505e);
        for c in honest_cases(&mut rng, false).into_iter().enumerate().filter(|(i, _)| thin(*i, 6)).map(|(_, c)| c) {
            run_case(em, &c, &pred_c01);
        }
        for c in fault_cases(&mut rng, false).into_iter().enumerate().filter(|(i, _)| thin(*i, 6)).map(|(_, c)| c) {
            run_case(em, &c, &pred_c01);
        }
    });
    // the response head: Content-Length against the model for astronomically large entities
    for len in [0u64, 1, 65535, 65536, 1 << 32, 1 << 63, u64::MAX] {
        for range in [None, Some(&b"bytes=0-"[..]), Some(b"bytes=1-"), Some(b"bytes=-1")] {
            for method in ["GET", "HEAD"] {
                let mut q = HReq::get();
                q.method = method.into();
                q.range = range.map(|r| r.to_vec());
                let e = ent(len);
                let o = observe_serve(&q, &e);
                let cl: Option<u64> = o
                    .header("content-length")
                    .and_then(|v| std::str::from_utf8(v).ok()?.parse().ok());
                let want = match &o.plan {
                    Plan::Exact(a, b) => Some(b - a),
                    _ => None,
                };
                let ok = !o.panicked
                    && (method == "HEAD" || !matches!(o.status, 200 | 206) || cl == want);
                em.case(
                    &serve_line(&q, &e, o.now),
                    &o.show(),
                    &pred(ok, || format!("Content-Length {:?} vs plan {:?}", cl, o.plan)),
                    &format!("head:{}", status_class(&o)),
                );
            }
        }
    }
}

pub fn c02(em: &mut Emit, thorough: bool, seed: u64) {
    // the entity the crate ships: files served with Range headers
    crate::suites_fs::serve_over_files(em);
    tokio_task_cases(em);
    // every shape the body suites are built on must be servable at all (the case generators read
    // the ranges off an honest reference run; a shape that cannot be served would silently
    // contribute no cases)
    for (name, len, range) in shapes() {
        let mut q = HReq::get();
        q.range = range.clone();
        let o = observe_serve(&q, &ent(len));
        let ok = !o.panicked && !matches!(o.plan, Plan::Unknown(_)) && (range.is_none() || !ranges_of(&o).is_empty());
        em.pred_only(
            &format!("shape {}: an honest entity of {} bytes, Range {:?}, served and drained", name, len, range.as_ref().map(|r| String::from_utf8_lossy(r).to_string())),
            &pred(ok, || format!("could not be served and drained honestly: {}", o.show())),
            "shape",
        );
    }
    let mut rng = Rng::new(seed ^ 0xC02);
    // corpus: F2
    {
        let mut q = HReq::get();
        q.range = Some(b"bytes=-0".to_vec());
        let c = BodyCase {
            q,
            e: ent(10),
            scripts: vec![],
            polls: 4,
            honest: true,
            shape: "corpus".into(),
        };
        run_case(em, &c, &pred_c02);
    }
    for c in honest_cases(&mut rng, thorough) {
        run_case(em, &c, &pred_c02);
    }
    // an entity whose length changes while it is served (every `len()` after the first answers
    // differently): the response is about ONE length, the first one reported
    for (first, later) in [(1000u64, 600u64), (1000, 1200), (1000, 0), (10, u64::MAX)] {
        for range in [None, Some(&b"bytes=900-949"[..]), Some(b"bytes=990-"), Some(b"bytes=-7"), Some(b"bytes=0-0,5-5"), Some(b"bytes=5000-")] {
            if first < 1000 && range.is_some() && range != Some(b"bytes=-7") {
                continue;
            }
            for method in ["GET", "HEAD"] {
                let mut q = HReq::get();
                q.method = method.into();
                q.range = range.map(|r| r.to_vec());
                let e = ent(first);
                e.later_lens.lock().unwrap().push_back(later);
                let scripts: Vec<Vec<Ev>> = ranges_of(&observe_serve(&q, &e))
                    .iter()
                    .map(|&(a, b)| if b >= a && b <= first { vec![Ev::Chunk(content(a..b))] } else { vec![] })
                    .collect();
                let c = BodyCase { q, e, scripts, polls: 12, honest: true, shape: format!("len-changes:{}:{}", first, later) };
                run_case(em, &c, &pred_c02);
            }
        }
    }
    // the heads: Content-Range a-b/L with a <= b < L = len and exactly that range fetched
    let max_len = if thorough { 9 } else { 6 };
    for len in 1..=max_len {
        for a in 0..=(len + 2) {
            for b in 0..=(len + 2) {
                for spec in [Spec::FromTo(a as u128, b as u128), Spec::From(a as u128), Spec::Suffix(a as u128)] {
                    if matches!(spec, Spec::From(_) | Spec::Suffix(_)) && b != 0 {
                        continue;
                    }
                    let mut q = HReq::get();
                    q.range = Some(render_specs(&[plain(spec)]));
                    let e = ent(len);
                    let o = observe_serve(&q, &e);
                    let grs: Vec<&Call> = o.calls.iter().filter(|c| matches!(c, Call::GetRange(..))).collect();
                    let p = if o.panicked {
                        "FAIL:panic".to_string()
                    } else if o.status == 206 {
                        match o.header("content-range").and_then(parse_content_range) {
                            Some((x, y, l)) => pred(
                                x <= y && y < l && l == len as u128
                                    && grs == vec![&Call::GetRange(x as u64, y as u64 + 1)],
                                || format!("Content-Range {}-{}/{} (len {}) fetched {:?}", x, y, l, len, grs),
                            ),
                            None => "FAIL:206 without a parseable Content-Range".to_string(),
                        }
                    } else if o.status == 200 {
                        pred(grs == vec![&Call::GetRange(0, len)], || format!("200 fetched {:?}", grs))
                    } else {
                        pred(grs.is_empty(), || format!("{} fetched {:?}", o.status, grs))
                    };
                    em.case(&serve_line(&q, &e, o.now), &o.show(), &p, &format!("head:{}", status_class(&o)));
                }
            }
        }
    }
}

pub fn c06(em: &mut Emit, thorough: bool, seed: u64) {
    let mut rng = Rng::new(seed ^ 0xC06);
    c06_huge(em, &mut rng, if thorough { 20_000 } else { 1_500 });
    let n = if thorough { 60_000 } else { 2_500 };
    let lens: [u64; 14] = [
        300,
        999,
        1000,
        100_000,
        1 << 32,
        (1 << 63) + 5,
        u64::MAX - 1,
        u64::MAX,
        999_999_999_999_999,
        1_000_000_000_000_000,
        10_000_000_000_000_000,
        999_999_999_999_999_999,
        1_000_000_000_000_000_000,
        10_000_000_000_000_000_000,
    ];
    for i in 0..n {
        let len = *rng.pick(&lens);
        let mut e = ent(len);
        let nh = rng.usize(5);
        let multipart_entity = i % 11 == 10;
        let names = if multipart_entity {
            ["content-type", "x-ent-a", "x-ent-b", "x-ent-a", "content-language"]
        } else if i % 5 == 4 {
            ["content-length", "content-range", "x-ent-b", "etag", "content-type"]
        } else {
            ["x-ent-a", "content-type", "x-ent-b", "x-ent-a", "content-language"]
        };
        e.headers = (0..nh)
            .map(|k| {
                let vlen = *rng.pick(&[0usize, 1, 7, 60, 300]);
                // every third value carries obs-text (bytes that are not UTF-8), as a Latin-1
                // file name in Content-Disposition would
                if multipart_entity && k == 0 {
                    // (an entity that is itself a multipart document, with the very boundary
                    // string `serve` uses, or its quoted form)
                    return (names[k].to_string(), if i % 2 == 0 { b"multipart/mixed; boundary=B".to_vec() } else { b"multipart/byteranges; boundary=\"B\"".to_vec() });
                }
                (
                    names[k].to_string(),
                    (0..vlen)
                        .map(|j| if (i + k) % 3 == 0 && j % 4 == 3 { [0xe9u8, 0xff, 0x80, 0xc3][(j / 4) % 4] } else { b'a' + ((j + k) % 26) as u8 })
                        .collect(),
                )
            })
            .collect();
        // (now and then a request with very many parts)
        let k = if i % 97 == 96 { *rng.pick(&[64usize, 65, 130, 300]) } else { 2 + rng.usize(7) };
        // ranges: overlapping, adjacent, duplicated, out of order; short so they can be drained,
        // positioned anywhere including the very end (digit widths up to 20)
        let mut anchors: Vec<u64> = vec![0, 1, 9, 10, 99, 100, len / 2, len - 50, len - 10, len - 1];
        // digit-width boundaries: just below and at every power of ten
        let mut p10 = 10u64;
        while p10 < len {
            for d in [1u64, 2, 21, 407] {
                if p10 > d {
                    anchors.push(p10 - d);
                }
            }
            anchors.push(p10);
            p10 = match p10.checked_mul(10) {
                Some(x) => x,
                None => break,
            };
        }
        let mut specs = vec![];
        let mut prev: Option<(u128, u128)> = None;
        for _ in 0..k {
            let a = *rng.pick(&anchors) as u128;
            let w = rng.below(12) as u128;
            let s = match (rng.below(6), prev) {
                (0, Some((pa, pb))) => Spec::FromTo(pa, pb),         // duplicate
                (1, Some((_, pb))) => Spec::FromTo(pb + 1, pb + 1 + w), // adjacent
                (2, Some((pa, pb))) => Spec::FromTo(pa + (pb - pa) / 2, pb + w), // overlapping
                (3, _) => Spec::Suffix(1 + w),
                _ => Spec::FromTo(a, a + w),
            };
            if let Spec::FromTo(x, y) = s {
                prev = Some((x, y));
            }
            specs.push(RenderedSpec {
                spec: s,
                ows_before: rng.pick(&OWS_CHOICES).to_vec(),
                ows_after: vec![],
                zeros: 0,
            });
        }
        let mut q = HReq::get();
        q.range = Some(render_specs(&specs));
        if rng.chance(1, 3) {
            q.if_range = Some(b"\"s\"".to_vec());
        }
        if i % 10 == 0 {
            q.method = "HEAD".into();
        }
        let want: Vec<(u64, u64)> = specs
            .iter()
            .filter_map(|s| resolve(&s.spec, len as u128))
            .map(|(a, b)| (a as u64, b as u64 + 1))
            .collect();
        if want.len() < 2 || !spec_numbers_fit(&specs) {
            continue; // a number >= 2^64 makes the header unparseable: C03's business
        }
        let est: u128 = want.iter().map(|(a, b)| 80 + (b - a) as u128).sum();
        if est >= len as u128 {
            continue; // complete 200 is legitimate here; C03's business
        }
        let scripts: Vec<Vec<Ev>> = if q.method == "GET" {
            want.iter().map(|&r| random_honest(&mut rng, r)).collect()
        } else {
            vec![]
        };
        let c = BodyCase {
            q,
            e,
            polls: scripts.iter().map(|s| s.len()).sum::<usize>() + 2 * want.len() + 5,
            scripts,
            honest: true,
            shape: format!("k{}h{}", want.len(), nh),
        };
        let w = want.clone();
        run_case(em, &c, &move |c, r| pred_c06(c, r, &w));
        // the head (part headers, Content-Length) against the model's prepare_multipart
        let o = observe_serve(&c.q, &c.e);
        em.case(
            &serve_line(&c.q, &c.e, o.now),
            &o.show(),
            "ok",
            &format!("head:{}", status_class(&o)),
        );
    }
}

/// C06 on bodies too large to drain: the announced length against the length of the layout
/// computed independently (u128) from the request's ranges and the entity's headers.
pub fn c06_huge(em: &mut Emit, rng: &mut Rng, n: usize) {
    for i in 0..n {
        let len = *rng.pick(&[u64::MAX, u64::MAX - 1, (1u64 << 63) + 7]);
        let mut e = ent(len);
        let nh = rng.usize(3);
        e.headers = (0..nh)
            .map(|k| {
                (
                    ["x-ent-a", "content-language"][k % 2].to_string(),
                    vec![b'v'; *rng.pick(&[1usize, 40, 200])],
                )
            })
            .collect();
        // a short first range and one that covers almost everything
        let slack = *rng.pick(&[0u64, 1, 100, 180, 200, 260, 400, 1000, 5000]);
        let a2 = 10 + rng.below(5);
        let b2 = (len - 1).saturating_sub(slack);
        let mut specs = vec![plain(Spec::FromTo(0, 9)), plain(Spec::FromTo(a2 as u128, b2 as u128))];
        if rng.chance(1, 3) {
            specs.push(plain(Spec::Suffix(1 + rng.below(20) as u128)));
        }
        let mut q = HReq::get();
        q.range = Some(render_specs(&specs));
        if i % 5 == 0 {
            q.method = "HEAD".into();
        }
        if rng.chance(1, 4) {
            q.if_range = Some(b"\"s\"".to_vec());
        }
        let want: Vec<(u128, u128)> = specs.iter().filter_map(|s| resolve(&s.spec, len as u128)).collect();
        let o = observe_serve(&q, &e);
        // independent layout length
        let eh: u128 = if q.if_range.is_none() {
            e.header_map().iter().map(|(k, v)| (k.as_str().len() + 2 + v.as_bytes().len() + 2) as u128).sum()
        } else {
            0
        };
        let layout: u128 = want
            .iter()
            .map(|(a, b)| {
                format!("\r\n--B\r\nContent-Range: bytes {}-{}/{}\r\n", a, b, len).len() as u128
                    + eh
                    + 2
                    + (b - a + 1)
            })
            .sum::<u128>()
            + 9;
        let is_mp = o.status == 206 && o.header("content-range").is_none();
        let cl: Option<u128> = o
            .header("content-length")
            .and_then(|v| std::str::from_utf8(v).ok()?.parse().ok());
        let p = if o.panicked {
            "FAIL:panic".to_string()
        } else if is_mp {
            pred(cl == Some(layout), || {
                format!("multipart Content-Length {:?} but the body layout has {} bytes", cl, layout)
            })
        } else {
            "ok".to_string()
        };
        em.case(
            &serve_line(&q, &e, o.now),
            &o.show(),
            &p,
            &format!("huge:{}", status_class(&o)),
        );
    }
}

/// An entity whose range stream delivers `good` honest bytes in chunks of `chunk`, then PANICS,
/// and when polled again after that simply ends (a stream whose generator died).
use bytes::Bytes;

struct PanicEntity {
    len: u64,
    good: u64,
    chunk: u64,
}
struct PanicStream {
    pos: u64,
    stop: u64,
    chunk: u64,
    panicked: bool,
}
impl futures_core::Stream for PanicStream {
    type Item = Result<Bytes, BoxError>;
    fn poll_next(mut self: std::pin::Pin<&mut Self>, _cx: &mut std::task::Context<'_>) -> std::task::Poll<Option<Self::Item>> {
        if self.panicked {
            return std::task::Poll::Ready(None);
        }
        if self.pos >= self.stop {
            self.panicked = true;
            panic!("entity stream panics");
        }
        let n = self.chunk.min(self.stop - self.pos);
        let d = content(self.pos..self.pos + n);
        self.pos += n;
        std::task::Poll::Ready(Some(Ok(Bytes::from(d))))
    }
}
impl http_serve::Entity for PanicEntity {
    type Error = BoxError;
    type Data = Bytes;
    fn len(&self) -> u64 {
        self.len
    }
    fn get_range(&self, r: std::ops::Range<u64>) -> std::pin::Pin<Box<dyn futures_core::Stream<Item = Result<Bytes, BoxError>> + Send + Sync>> {
        Box::pin(PanicStream { pos: r.start, stop: (r.start + self.good).min(r.end.saturating_sub(1)), chunk: self.chunk, panicked: false })
    }
    fn add_headers(&self, _: &mut http::HeaderMap) {}
    fn etag(&self) -> Option<http::HeaderValue> {
        None
    }
    fn last_modified(&self) -> Option<std::time::SystemTime> {
        None
    }
}

/// C07 for the hardest way a stream can fail: it panics. A consumer that contains the panic and
/// polls the body again must still not be told that the (truncated) body is complete.
fn panicking_stream_cases(em: &mut Emit) {
    use http_body::Body as _;
    for range in [None, Some("bytes=10-59"), Some("bytes=0-9, 20-49")] {
        for good in [0u64, 3, 10, 25] {
            let mut b = http::Request::get("/");
            if let Some(r) = range {
                b = b.header("range", r);
            }
            let req = b.body(()).unwrap();
            let resp = http_serve::serve(PanicEntity { len: 1000, good, chunk: 4 }, &req);
            let announced: Option<u64> = resp.headers().get("content-length").and_then(|v| v.to_str().ok()).and_then(|v| v.parse().ok());
            let mut body = Box::pin(resp.into_body());
            let waker = noop_waker();
            let mut cx = std::task::Context::from_waker(&waker);
            let mut delivered = 0u64;
            let mut panics = 0;
            let mut outcome = "no terminal event in 400 polls";
            for _ in 0..400 {
                let r = std::panic::catch_unwind(std::panic::AssertUnwindSafe(|| body.as_mut().poll_frame(&mut cx)));
                match r {
                    Err(_) => {
                        panics += 1;
                        if panics > 3 {
                            outcome = "keeps panicking";
                            break;
                        }
                    }
                    Ok(std::task::Poll::Ready(Some(Ok(f)))) => delivered += f.into_data().map(|d| d.len() as u64).unwrap_or(0),
                    Ok(std::task::Poll::Ready(Some(Err(_)))) => {
                        outcome = "error";
                        break;
                    }
                    Ok(std::task::Poll::Ready(None)) => {
                        outcome = "clean end";
                        break;
                    }
                    Ok(std::task::Poll::Pending) => {}
                }
            }
            std::mem::forget(body);
            let ok = !(outcome == "clean end" && Some(delivered) != announced) && outcome != "no terminal event in 400 polls";
            em.pred_only(
                &format!("entity stream panics after {} good bytes of Range {:?}; the panic is contained and the body polled again", good, range),
                &pred(ok, || format!("{} after {} of the {:?} bytes announced ({} panics seen)", outcome, delivered, announced, panics)),
                "panicking-stream",
            );
        }
    }
}

/// An entity whose range stream delivers `good` honest bytes, then `empties` EMPTY chunks, then
/// ends early or fails (a producer that idles for a long time before it gives up).
struct FloodEntity {
    good: u64,
    empties: u64,
    fail: bool,
}
struct FloodStream {
    pos: u64,
    stop: u64,
    empties: u64,
    fail: bool,
    done: bool,
}
impl futures_core::Stream for FloodStream {
    type Item = Result<Bytes, BoxError>;
    fn poll_next(mut self: std::pin::Pin<&mut Self>, _cx: &mut std::task::Context<'_>) -> std::task::Poll<Option<Self::Item>> {
        if self.pos < self.stop {
            let n = 5u64.min(self.stop - self.pos);
            let d = content(self.pos..self.pos + n);
            self.pos += n;
            return std::task::Poll::Ready(Some(Ok(Bytes::from(d))));
        }
        if self.empties > 0 {
            self.empties -= 1;
            return std::task::Poll::Ready(Some(Ok(Bytes::new())));
        }
        if self.fail && !self.done {
            self.done = true;
            return std::task::Poll::Ready(Some(Err(Box::new(EntityFailure))));
        }
        std::task::Poll::Ready(None)
    }
}
impl http_serve::Entity for FloodEntity {
    type Error = BoxError;
    type Data = Bytes;
    fn len(&self) -> u64 {
        1000
    }
    fn get_range(&self, r: std::ops::Range<u64>) -> std::pin::Pin<Box<dyn futures_core::Stream<Item = Result<Bytes, BoxError>> + Send + Sync>> {
        Box::pin(FloodStream { pos: r.start, stop: (r.start + self.good).min(r.end.saturating_sub(1)), empties: self.empties, fail: self.fail, done: false })
    }
    fn add_headers(&self, _: &mut http::HeaderMap) {}
    fn etag(&self) -> Option<http::HeaderValue> {
        None
    }
    fn last_modified(&self) -> Option<std::time::SystemTime> {
        None
    }
}

/// C07 with a very long run of empty chunks before the fault (counts far beyond what the
/// scripted cases enumerate): however long a stream idles, an early end is still an error.
fn empty_flood_cases(em: &mut Emit) {
    use http_body::Body as _;
    for range in [None, Some("bytes=10-509"), Some("bytes=0-9, 20-49")] {
        for empties in [1000u64, 65_535, 65_536, 70_000, 200_000] {
            for fail in [false, true] {
                let mut b = http::Request::get("/");
                if let Some(r) = range {
                    b = b.header("range", r);
                }
                let req = b.body(()).unwrap();
                let resp = http_serve::serve(FloodEntity { good: 7, empties, fail }, &req);
                let announced: Option<u64> = resp.headers().get("content-length").and_then(|v| v.to_str().ok()).and_then(|v| v.parse().ok());
                let mut body = Box::pin(resp.into_body());
                let waker = noop_waker();
                let mut cx = std::task::Context::from_waker(&waker);
                let mut delivered = 0u64;
                let mut outcome = "no terminal event";
                let r = std::panic::catch_unwind(std::panic::AssertUnwindSafe(|| {
                    for _ in 0..(empties + 1000) {
                        match body.as_mut().poll_frame(&mut cx) {
                            std::task::Poll::Ready(Some(Ok(f))) => delivered += f.into_data().map(|d| d.len() as u64).unwrap_or(0),
                            std::task::Poll::Ready(Some(Err(_))) => {
                                outcome = "error";
                                break;
                            }
                            std::task::Poll::Ready(None) => {
                                outcome = "clean end";
                                break;
                            }
                            std::task::Poll::Pending => {}
                        }
                    }
                }));
                if r.is_err() {
                    outcome = "panic";
                    std::mem::forget(body);
                }
                em.pred_only(
                    &format!("entity stream: 7 good bytes, {} empty chunks, then {} (Range {:?})", empties, if fail { "an error" } else { "an early end" }, range),
                    &pred(outcome == "error", || format!("{} after {} of the {:?} bytes announced", outcome, delivered, announced)),
                    "empty-flood",
                );
            }
        }
    }
}

pub fn c07(em: &mut Emit, thorough: bool, seed: u64) {
    panicking_stream_cases(em);
    empty_flood_cases(em);
    // an entity of no bytes at all: its stream can still misbehave (a byte too many, an error,
    // an empty chunk and then an error), and an honest one ends at once
    for (scripts, honest) in [
        (vec![vec![Ev::Chunk(vec![7])]], false),
        (vec![vec![Ev::Err]], false),
        (vec![vec![Ev::Chunk(vec![]), Ev::Err]], false),
        (vec![vec![Ev::Pending, Ev::Chunk(vec![1, 2])]], false),
        (vec![vec![]], true),
        (vec![vec![Ev::Chunk(vec![])]], true),
    ] {
        let c = BodyCase { q: HReq::get(), e: ent(0), scripts, polls: 6, honest, shape: "200-empty".into() };
        run_case(em, &c, &pred_c07);
    }
    let mut rng = Rng::new(seed ^ 0xC07);
    for c in fault_cases(&mut rng, thorough) {
        run_case(em, &c, &pred_c07);
    }
    for c in compensating_fault_cases() {
        run_case(em, &c, &pred_c07);
    }
    with_rope(|| {
        let mut rng = Rng::new(seed ^ 0xC07 ^ 0x505e);
        for c in fault_cases(&mut rng, false).into_iter().enumerate().filter(|(i, _)| thin(*i, 5)).map(|(_, c)| c) {
            run_case(em, &c, &pred_c07);
        }
        for c in honest_cases(&mut rng, false).into_iter().enumerate().filter(|(i, _)| thin(*i, 12)).map(|(_, c)| c) {
            run_case(em, &c, &pred_c07);
        }
    });
    // and the honest twin of every shape so that "fault => error" is not vacuous
    for c in honest_cases(&mut rng, false).into_iter().enumerate().filter(|(i, _)| thin(*i, 5)).map(|(_, c)| c) {
        run_case(em, &c, &pred_c07);
    }
}

/// The public conversions into a `Body` (`Body::empty()`, `From<&'static [u8]>`, `From<&'static
/// str>`, `From<Vec<u8>>`, `From<String>`): hint exact before every poll, the flag true only when
/// nothing is left, one data frame with exactly the bytes (none when empty), then the end, which
/// stays the end.
pub fn conversion_bodies(em: &mut Emit) {
    let texts: [&'static str; 4] = ["", "x", "hello, world", "0123456789abcdef0123456789abcdef0123456789abcdef0123456789abcdef!"];
    // with a data type that is not one contiguous slice: the hint is about all of it
    for t in texts {
        type RBody = http_serve::Body<Rope, BoxError>;
        for (what, body) in [
            ("&'static [u8]", RBody::from(t.as_bytes())),
            ("&'static str", RBody::from(t)),
            ("Vec<u8>", RBody::from(t.as_bytes().to_vec())),
            ("String", RBody::from(t.to_string())),
        ] {
            let recs = drive_any(body, 4, false);
            let first = &recs[0];
            let got: Vec<u8> = recs.iter().filter_map(|r| if let Out::Data(d) = &r.out { Some(d.clone()) } else { None }).flatten().collect();
            let ok = first.lower == t.len() as u64 && first.upper == Some(t.len() as u64) && got == t.as_bytes()
                && recs.iter().any(|r| r.out == Out::End) && !recs.iter().any(|r| r.out == Out::Panic);
            em.pred_only(
                &format!("Body::<Rope>::from({}) of {} bytes", what, t.len()),
                &pred(ok, || format!("initial hint ({}, {:?}), delivered {} bytes", first.lower, first.upper, got.len())),
                "conversion-rope",
            );
        }
    }
    for t in texts {
        let makers: Vec<(&str, SBody)> = vec![
            ("&'static [u8]", SBody::from(t.as_bytes())),
            ("&'static str", SBody::from(t)),
            ("Vec<u8>", SBody::from(t.as_bytes().to_vec())),
            ("String", SBody::from(t.to_string())),
        ];
        let mut all = makers;
        if t.is_empty() {
            all.push(("Body::empty()", SBody::empty()));
        }
        for (what, body) in all {
            let recs = drive(body, 5);
            let mut ok = true;
            let mut why = String::new();
            let mut left = t.len() as u64;
            let mut ended = false;
            let mut got: Vec<u8> = vec![];
            for (i, r) in recs.iter().enumerate() {
                if r.lower != left || r.upper != Some(left) {
                    ok = false;
                    why = format!("poll {}: hint ({}, {:?}) with {} bytes left", i, r.lower, r.upper, left);
                    break;
                }
                if r.eos && left > 0 {
                    ok = false;
                    why = format!("poll {}: is_end_stream with {} bytes left", i, left);
                    break;
                }
                match &r.out {
                    // (a conversion from an empty value yields one empty frame: no bytes, allowed)
                    Out::Data(d) if !ended && (!d.is_empty() || t.is_empty()) => {
                        got.extend_from_slice(d);
                        left -= (d.len() as u64).min(left);
                    }
                    Out::End => ended = true,
                    other => {
                        ok = false;
                        why = format!("poll {}: unexpected {:?}", i, other);
                        break;
                    }
                }
            }
            if ok && (!ended || got != t.as_bytes()) {
                ok = false;
                why = "did not deliver exactly its bytes and then end".into();
            }
            em.pred_only(
                &format!("Body::from({}) of {} bytes, polled 5 times", what, t.len()),
                &pred(ok, || why.clone()),
                "conversion",
            );
        }
    }
}

pub fn c12_serve(em: &mut Emit, thorough: bool, seed: u64) {
    conversion_bodies(em);
    for c in many_parts_cases() {
        run_case(em, &c, &pred_c12);
    }
    let mut rng = Rng::new(seed ^ 0xC12);
    for c in honest_cases(&mut rng, thorough) {
        run_case(em, &c, &pred_c12);
    }
    for c in fault_cases(&mut rng, false).into_iter().enumerate().filter(|(i, _)| thin(*i, 2)).map(|(_, c)| c) {
        run_case(em, &c, &pred_c12);
    }
    for c in transient_cases() {
        run_case(em, &c, &pred_c12);
    }
    with_rope(|| {
        let mut rng = Rng::new(seed ^ 0xC12 ^ 0x505e);
        for c in honest_cases(&mut rng, false).into_iter().enumerate().filter(|(i, _)| thin(*i, 6)).map(|(_, c)| c) {
            run_case(em, &c, &pred_c12);
        }
        // responses whose body is one of the crate's fixed texts
        for (method, im) in [("POST", None), ("GET", Some(&b"\"nope\""[..])), ("GET", Some(&b"bad"[..]))] {
            let mut q = HReq::get();
            q.method = method.into();
            q.if_match = im.map(|v| v.to_vec());
            let mut e = ent(10);
            e.etag = Some(b"\"t\"".to_vec());
            let c = BodyCase { q, e, scripts: vec![], polls: 4, honest: true, shape: "fixed-text".into() };
            run_case(em, &c, &pred_c12);
        }
    });
}

pub fn c20_serve(em: &mut Emit, thorough: bool, seed: u64) {
    conversion_bodies(em);
    crate::suites_fs::file_bodies_stay_terminated(em);
    for c in many_parts_cases() {
        run_case(em, &c, &pred_c20);
    }
    let mut rng = Rng::new(seed ^ 0xC20);
    // corpus: F9
    {
        let mut q = HReq::get();
        q.range = Some(b"bytes=0-1,5-6".to_vec());
        let c = BodyCase {
            q,
            e: ent(1000),
            scripts: vec![vec![Ev::Err]],
            polls: 8,
            honest: false,
            shape: "corpus".into(),
        };
        run_case(em, &c, &pred_c20);
    }
    for mut c in fault_cases(&mut rng, thorough) {
        c.polls += 4;
        run_case(em, &c, &pred_c20);
    }
    for mut c in honest_cases(&mut rng, false).into_iter().enumerate().filter(|(i, _)| thin(*i, 3)).map(|(_, c)| c) {
        c.polls += 4;
        run_case(em, &c, &pred_c20);
    }
}
