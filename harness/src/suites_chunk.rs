//! Sequential operation histories on `streaming_body` bodies: C08, C09, C11 and the streaming
//! halves of C12 and C20.

use crate::common::*;
use bytes::Bytes;
use http::header::HeaderValue;
use http_body::Body as _;
use std::io::Write as _;
use std::sync::{Arc, Mutex};
use std::task::{Context, Poll};

#[derive(Clone, Debug, PartialEq, Eq)]
pub enum Op {
    Write(Vec<u8>),
    /// std's `write_all` loop, spelled out as individual `write` calls
    WriteAll(Vec<u8>),
    /// the writer's own `write_all` (std's default unless overridden): one call
    WriteAllReal(Vec<u8>),
    /// one `write_vectored` call with these slices (`BodyWriter` has std's default: a `write`
    /// of the first non-empty slice, which is what the model is told)
    WriteV(Vec<Vec<u8>>),
    Flush,
    Abort,
    DropWriter,
    Poll(u64),
    /// poll (same waker) until Pending or a terminal event
    PollUntilPending(u64),
    Hint,
    Eos,
    DropBody,
}

#[derive(Clone, Debug, PartialEq, Eq)]
pub enum Obs {
    Wrote(usize),
    Ok,
    Err,
    Unit,
    Data(Vec<u8>),
    PErr,
    End,
    Pending,
    Panic,
    Hint(u64, Option<u64>),
    Eos(bool),
}

/// One primitive step as the protocol prints it: `(op token, observation, wakes)`.
#[derive(Clone, Debug)]
pub struct Step {
    pub tok: String,
    pub obs: Obs,
    pub wakes: Vec<u64>,
    /// the bytes the caller passed (for `W`)
    pub input: Vec<u8>,
}

impl Step {
    pub fn show_obs(&self) -> String {
        let base = match &self.obs {
            Obs::Wrote(n) => format!("w{}", n),
            Obs::Ok => "ok".into(),
            Obs::Err => "err".into(),
            Obs::Unit => "u".into(),
            Obs::Data(d) => format!("D{}", hex(d)),
            Obs::PErr => "ERR".into(),
            Obs::End => "END".into(),
            Obs::Pending => "PEND".into(),
            Obs::Panic => "PANIC".into(),
            Obs::Hint(l, u) => format!(
                "h{},{}",
                l,
                u.map(|x| x.to_string()).unwrap_or_else(|| "-".into())
            ),
            Obs::Eos(b) => if *b { "e1" } else { "e0" }.into(),
        };
        let wakes: String = self.wakes.iter().map(|w| format!("^{}", w)).collect();
        format!("{}{}", base, wakes)
    }
}

type W = http_serve::BodyWriter<Bytes, BoxError>;

pub struct Session {
    pub cap: usize,
    /// 0 = raw
    pub level: u32,
    w: Option<W>,
    body: Option<std::pin::Pin<Box<SBody>>>,
    wake_log: Arc<Mutex<Vec<u64>>>,
    wakers: std::collections::HashMap<u64, std::task::Waker>,
    reference: Option<flate2::write::GzEncoder<Vec<u8>>>,
    pub steps: Vec<Step>,
    pub panicked: bool,
}

impl Session {
    pub fn new(cap: usize, level: u32) -> Option<Session> {
        history_noise();
        choose_drop_mode();
        let mut b = http::Request::get("/");
        if level > 0 {
            b = b.header("accept-encoding", HeaderValue::from_static("gzip"));
        }
        let req = b.body(()).unwrap();
        let r = std::panic::catch_unwind(std::panic::AssertUnwindSafe(|| {
            http_serve::streaming_body(&req)
                .with_chunk_size(cap)
                .with_gzip_level(level)
                .build::<Bytes, BoxError>()
        }));
        let (resp, w) = r.ok()?;
        Some(Session {
            cap,
            level,
            w,
            body: Some(Box::pin(resp.into_body())),
            wake_log: Default::default(),
            wakers: Default::default(),
            reference: if level > 0 {
                Some(flate2::GzBuilder::new().write(vec![], flate2::Compression::new(level)))
            } else {
                None
            },
            steps: vec![],
            panicked: false,
        })
    }

    fn waker(&mut self, id: u64) -> std::task::Waker {
        let log = self.wake_log.clone();
        self.wakers
            .entry(id)
            .or_insert_with(|| mk_waker(id, &log))
            .clone()
    }

    fn record(&mut self, tok: String, obs: Obs, wake_mark: usize, input: Vec<u8>) {
        let wakes = self.wake_log.lock().unwrap()[wake_mark..].to_vec();
        self.steps.push(Step {
            tok,
            obs,
            wakes,
            input,
        });
    }

    fn mark(&self) -> usize {
        self.wake_log.lock().unwrap().len()
    }

    /// What the reference encoder pushes into its sink while `f` runs.
    fn ref_pushed(
        &mut self,
        f: impl FnOnce(&mut flate2::write::GzEncoder<Vec<u8>>) -> usize,
    ) -> (Vec<u8>, usize) {
        let r = self.reference.as_mut().unwrap();
        let before = r.get_ref().len();
        let n = f(r);
        (r.get_ref()[before..].to_vec(), n)
    }

    fn write_once(&mut self, bs: &[u8]) -> Obs {
        self.write_impl(bs, None)
    }

    /// `write_vectored(slices)`: recorded as a write of the first non-empty slice; the bytes
    /// the call claims to have accepted are the first `n` of the concatenation.
    fn write_vectored_once(&mut self, slices: &[Vec<u8>]) -> Obs {
        let first: Vec<u8> = slices.iter().find(|s| !s.is_empty()).cloned().unwrap_or_default();
        self.write_impl(&first, Some(slices))
    }

    /// The writer's `write_all`, as one call. Recorded as `L<bytes>` for a raw writer (the model
    /// runs std's loop over its own `write`), as a gzip write accepting everything otherwise.
    fn write_all_real(&mut self, bs: &[u8]) -> Obs {
        let mark = self.mark();
        let r = {
            let w = self.w.as_mut().unwrap();
            // one of the fixed literals goes in through `write!(w, "literal")` — `write_fmt` with
            // no arguments, which std implements with `write_all` (and a writer might not)
            std::panic::catch_unwind(std::panic::AssertUnwindSafe(|| match write_literal(w, bs) {
                Some(r) => r,
                None => w.write_all(bs),
            }))
        };
        let obs = match r {
            Err(_) => {
                self.panicked = true;
                Obs::Panic
            }
            Ok(Ok(())) => Obs::Wrote(bs.len()),
            Ok(Err(_)) => Obs::Err,
        };
        // (`write_all` of nothing never calls `write`: `L` with no bytes, whatever the writer)
        let tok = if self.level > 0 && !bs.is_empty() {
            let (pushed, _) = self.ref_pushed(|r| {
                r.write_all(bs).unwrap();
                bs.len()
            });
            format!("GW{}:{}", hex(&pushed), bs.len())
        } else {
            format!("L{}", hex(bs))
        };
        self.record(tok, obs.clone(), mark, bs.to_vec());
        obs
    }

    fn write_impl(&mut self, bs: &[u8], vectored: Option<&[Vec<u8>]>) -> Obs {
        let mark = self.mark();
        let r = {
            let w = self.w.as_mut().unwrap();
            std::panic::catch_unwind(std::panic::AssertUnwindSafe(|| match vectored {
                None => w.write(bs),
                Some(slices) => {
                    let ios: Vec<std::io::IoSlice> = slices.iter().map(|s| std::io::IoSlice::new(s)).collect();
                    w.write_vectored(&ios)
                }
            }))
        };
        let obs = match r {
            Err(_) => {
                self.panicked = true;
                Obs::Panic
            }
            Ok(Ok(n)) => Obs::Wrote(n),
            Ok(Err(_)) => Obs::Err,
        };
        let tok = if self.level > 0 {
            let (pushed, acc) = self.ref_pushed(|r| r.write(bs).unwrap());
            format!("GW{}:{}", hex(&pushed), acc)
        } else if let Some(slices) = vectored {
            // the model applies std's default itself (`firstNonEmpty`)
            format!("V{}", slices.iter().map(|s| hex(s)).collect::<Vec<_>>().join(","))
        } else {
            format!("W{}", hex(bs))
        };
        // a vectored call that accepts no more than its first non-empty slice is a write of that
        // slice; one that claims more is judged on the concatenation
        let input = match (vectored, &obs) {
            (Some(slices), Obs::Wrote(n)) if *n > bs.len() => slices.concat(),
            _ => bs.to_vec(),
        };
        self.record(tok, obs.clone(), mark, input);
        obs
    }

    pub fn apply(&mut self, op: &Op) {
        if self.panicked {
            return;
        }
        heartbeat(|| {
            let short = |o: &Op| match o {
                Op::Write(b) => format!("write({} bytes)", b.len()),
                Op::WriteV(v) => format!("write_vectored({:?} bytes)", v.iter().map(|s| s.len()).collect::<Vec<_>>()),
                Op::WriteAllReal(b) => format!("write_all({} bytes, one call)", b.len()),
                Op::WriteAll(b) => format!("write_all({} bytes)", b.len()),
                o => format!("{:?}", o),
            };
            let toks: Vec<String> = self.steps.iter().map(|s| if s.tok.len() > 24 { format!("{}..", &s.tok[..24]) } else { s.tok.clone() }).collect();
            format!("streaming body, chunk size {}, gzip level {}: after [{}] the operation {} did not return",
                    self.cap, self.level, toks.join(";"), short(op))
        });
        match op {
            Op::Write(bs) => {
                if self.w.is_some() {
                    self.write_once(bs);
                }
            }
            Op::WriteV(slices) => {
                if self.w.is_some() {
                    self.write_vectored_once(slices);
                }
            }
            Op::WriteAllReal(bs) => {
                if self.w.is_some() {
                    self.write_all_real(bs);
                }
            }
            Op::WriteAll(bs) => {
                if self.w.is_none() {
                    return;
                }
                let mut rest = &bs[..];
                while !rest.is_empty() {
                    match self.write_once(rest) {
                        Obs::Wrote(0) | Obs::Err | Obs::Panic => break,
                        Obs::Wrote(n) => rest = &rest[n..],
                        _ => unreachable!(),
                    }
                }
            }
            Op::Flush => {
                if self.w.is_none() {
                    return;
                }
                let mark = self.mark();
                let r = {
                    let w = self.w.as_mut().unwrap();
                    std::panic::catch_unwind(std::panic::AssertUnwindSafe(|| w.flush()))
                };
                let obs = match r {
                    Err(_) => {
                        self.panicked = true;
                        Obs::Panic
                    }
                    Ok(Ok(())) => Obs::Ok,
                    Ok(Err(_)) => Obs::Err,
                };
                let tok = if self.level > 0 {
                    let (pushed, _) = self.ref_pushed(|r| {
                        r.flush().unwrap();
                        0
                    });
                    format!("GF{}", hex(&pushed))
                } else {
                    "F".to_string()
                };
                self.record(tok, obs, mark, vec![]);
            }
            Op::Abort => {
                if self.w.is_none() {
                    return;
                }
                let mark = self.mark();
                let r = {
                    let w = self.w.as_mut().unwrap();
                    std::panic::catch_unwind(std::panic::AssertUnwindSafe(|| {
                        w.abort(Box::new(std::io::Error::other("aborted by harness")))
                    }))
                };
                let obs = if r.is_err() {
                    self.panicked = true;
                    Obs::Panic
                } else {
                    Obs::Unit
                };
                self.record("A".into(), obs, mark, vec![]);
            }
            Op::DropWriter => {
                if let Some(w) = self.w.take() {
                    let mark = self.mark();
                    let obs = if drop_in_mode(w) {
                        self.panicked = true;
                        Obs::Panic
                    } else {
                        Obs::Unit
                    };
                    let tok = if self.level > 0 {
                        let (pushed, _) = self.ref_pushed(|r| {
                            r.try_finish().unwrap();
                            0
                        });
                        format!("GD{}", hex(&pushed))
                    } else {
                        "D".to_string()
                    };
                    self.record(tok, obs, mark, vec![]);
                }
            }
            Op::Poll(id) => {
                self.poll(*id);
            }
            Op::PollUntilPending(id) => {
                for _ in 0..10_000 {
                    match self.poll(*id) {
                        Some(Obs::Data(_)) => {}
                        _ => break,
                    }
                }
            }
            Op::Hint => {
                if let Some(b) = self.body.as_ref() {
                    let mark = self.mark();
                    let h = b.size_hint();
                    self.record("H".into(), Obs::Hint(h.lower(), h.upper()), mark, vec![]);
                }
            }
            Op::Eos => {
                if let Some(b) = self.body.as_ref() {
                    let mark = self.mark();
                    let e = b.is_end_stream();
                    self.record("E".into(), Obs::Eos(e), mark, vec![]);
                }
            }
            Op::DropBody => {
                if let Some(b) = self.body.take() {
                    let mark = self.mark();
                    let obs = if drop_in_mode(b) {
                        self.panicked = true;
                        Obs::Panic
                    } else {
                        Obs::Unit
                    };
                    self.record("X".into(), obs, mark, vec![]);
                }
            }
        }
    }

    fn poll(&mut self, id: u64) -> Option<Obs> {
        self.body.as_ref()?;
        let waker = self.waker(id);
        let mark = self.mark();
        let r = {
            let b = self.body.as_mut().unwrap();
            let mut cx = Context::from_waker(&waker);
            std::panic::catch_unwind(std::panic::AssertUnwindSafe(|| {
                b.as_mut().poll_frame(&mut cx)
            }))
        };
        let obs = match r {
            Err(_) => {
                self.panicked = true;
                std::mem::forget(self.body.take());
                Obs::Panic
            }
            Ok(Poll::Ready(Some(Ok(f)))) => Obs::Data(f.into_data().unwrap().to_vec()),
            Ok(Poll::Ready(Some(Err(_)))) => Obs::PErr,
            Ok(Poll::Ready(None)) => Obs::End,
            Ok(Poll::Pending) => Obs::Pending,
        };
        self.record(format!("P{}", id), obs.clone(), mark, vec![]);
        Some(obs)
    }

    pub fn line(&self) -> String {
        format!(
            "CHUNK cap={} kind={} ops={}",
            self.cap,
            if self.level > 0 { "gz" } else { "raw" },
            self.steps
                .iter()
                .map(|s| s.tok.clone())
                .collect::<Vec<_>>()
                .join(";")
        )
    }

    pub fn out(&self) -> String {
        self.steps
            .iter()
            .map(|s| s.show_obs())
            .collect::<Vec<_>>()
            .join(" ")
    }
}

pub fn run_ops(cap: usize, level: u32, ops: &[Op]) -> Session {
    let mut s = Session::new(cap, level).expect("build panicked");
    for op in ops {
        s.apply(op);
    }
    s
}

// ---------------------------------------------------------------------------------------
// Predicates over a finished session

fn accepted_bytes(s: &Session) -> Vec<u8> {
    let mut v = vec![];
    for st in &s.steps {
        if let Obs::Wrote(n) = st.obs {
            v.extend_from_slice(&st.input[..n]);
        }
    }
    v
}

fn delivered_bytes(steps: &[Step]) -> Vec<u8> {
    let mut v = vec![];
    for st in steps {
        if let Obs::Data(d) = &st.obs {
            v.extend_from_slice(d);
        }
    }
    v
}

fn is_poll(st: &Step) -> bool {
    st.tok.starts_with('P')
}

/// Payloads that `write_all_real` sends as `write!(w, "<literal>")`.
pub const FMT_LITERALS: [&[u8]; 8] = [b"a", b"bc", b"def", b"ghij", b"klmno", b"pqrstu", b"vwxyzAB", b"CDEFGHIJ"];

fn write_literal<W: std::io::Write>(w: &mut W, bs: &[u8]) -> Option<std::io::Result<()>> {
    Some(match bs {
        b"a" => write!(w, "a"),
        b"bc" => write!(w, "bc"),
        b"def" => write!(w, "def"),
        b"ghij" => write!(w, "ghij"),
        b"klmno" => write!(w, "klmno"),
        b"pqrstu" => write!(w, "pqrstu"),
        b"vwxyzAB" => write!(w, "vwxyzAB"),
        b"CDEFGHIJ" => write!(w, "CDEFGHIJ"),
        _ => return None,
    })
}

pub fn pred_c08(s: &Session) -> String {
    if s.panicked {
        return "FAIL:panic".into();
    }
    let mut accepted: Vec<u8> = vec![];
    let mut delivered: Vec<u8> = vec![];
    let mut buffered = 0usize; // bytes in the writer's current chunk (independent bookkeeping)
    let mut writer_gone = false;
    for (i, st) in s.steps.iter().enumerate() {
        match &st.obs {
            Obs::Wrote(n) => {
                if !st.input.is_empty() && *n == 0 {
                    return format!("FAIL:write of {} bytes accepted 0 at step {}", st.input.len(), i);
                }
                if *n > st.input.len() {
                    return "FAIL:write reported more than it was given".into();
                }
                accepted.extend_from_slice(&st.input[..*n]);
                buffered = (buffered + n) % s.cap;
            }
            Obs::Err if st.tok.starts_with('W') || st.tok.starts_with('V') || st.tok.starts_with('L') || st.tok == "F" => {
                return format!("FAIL:{} failed on a live body at step {}", st.tok, i);
            }
            Obs::Ok => {
                // flush returned: everything accepted so far must be available without any
                // further producer action
                buffered = 0;
                let mut avail = delivered.clone();
                for later in &s.steps[i + 1..] {
                    if !is_poll(later) {
                        if matches!(later.obs, Obs::Hint(..) | Obs::Eos(_)) {
                            continue;
                        }
                        break;
                    }
                    match &later.obs {
                        Obs::Data(d) => avail.extend_from_slice(d),
                        _ => {
                            // the consumer ran dry: it must have seen everything accepted
                            if avail != accepted {
                                return format!(
                                    "FAIL:after flush at step {} only {} of {} accepted bytes were available",
                                    i,
                                    avail.len(),
                                    accepted.len()
                                );
                            }
                            break;
                        }
                    }
                }
            }
            Obs::Data(d) => {
                if d.is_empty() {
                    return format!("FAIL:empty frame at step {}", i);
                }
                // (how large a frame may be is not something C08 says: the model comparison knows
                // the current chunking, the property does not care)
                delivered.extend_from_slice(d);
            }
            Obs::PErr => return format!("FAIL:body reported an error at step {}", i),
            Obs::End => {
                if !writer_gone {
                    return format!("FAIL:body ended at step {} while the writer is alive", i);
                }
                if delivered != accepted {
                    return format!(
                        "FAIL:clean end after {} bytes, {} were accepted",
                        delivered.len(),
                        accepted.len()
                    );
                }
            }
            Obs::Unit if st.tok == "D" => writer_gone = true,
            _ => {}
        }
        if !accepted.starts_with(&delivered) {
            return format!("FAIL:delivered bytes are not a prefix of the accepted bytes at step {}", i);
        }
    }
    let _ = buffered;
    if writer_gone && !s.steps.iter().any(|st| st.obs == Obs::End) {
        return "FAIL:writer dropped but the drained body never ended".into();
    }
    "ok".into()
}

pub fn pred_c11(s: &Session) -> String {
    if s.panicked {
        return "FAIL:panic".into();
    }
    let accepted = accepted_bytes(s);
    let delivered = delivered_bytes(&s.steps);
    if s.level == 0 && !accepted.starts_with(&delivered) {
        return "FAIL:delivered bytes are not a prefix of the bytes written".into();
    }
    let abort_at = s.steps.iter().position(|st| st.tok == "A");
    let drop_body_at = s.steps.iter().position(|st| st.tok == "X");
    let writer_drop_at = s
        .steps
        .iter()
        .position(|st| st.tok == "D" || st.tok.starts_with("GD"));
    if let Some(a) = abort_at {
        // was the writer still live (not Dead from an earlier error) at the abort?
        let live = !s.steps[..a].iter().any(|st| st.obs == Obs::Err);
        for st in &s.steps[a + 1..] {
            let is_w = st.tok.starts_with('W') || st.tok.starts_with('V') || st.tok.starts_with('L') || st.tok.starts_with("GW");
            let is_f = st.tok == "F" || st.tok.starts_with("GF");
            // (`write_all` of nothing makes no call into the writer)
            let is_w = is_w && st.tok != "L";
            if (is_w || is_f) && st.obs != Obs::Err {
                return format!("FAIL:{} succeeded after abort", st.tok);
            }
        }
        let terminal_before = s.steps[..a]
            .iter()
            .any(|st| matches!(st.obs, Obs::End | Obs::PErr));
        if live && !terminal_before && drop_body_at.map_or(true, |x| x > a) {
            // the next terminal event is an error
            let mut saw = false;
            for st in &s.steps[a + 1..] {
                match st.obs {
                    Obs::PErr => {
                        saw = true;
                        break;
                    }
                    Obs::End => return "FAIL:clean end after abort".into(),
                    Obs::Data(_) => {}
                    Obs::Eos(true) => return "FAIL:is_end_stream while the abort error is pending".into(),
                    // "exactly 0 bytes left" is the same claim in the other method: a consumer
                    // that frames the response from it (hyper does) never polls for the error
                    Obs::Hint(0, Some(0)) => {
                        return "FAIL:size_hint says exactly 0 bytes are left while the abort error is pending".into()
                    }
                    _ => {}
                }
                if st.tok == "X" {
                    saw = true; // body dropped before observing; nothing to check
                    break;
                }
            }
            let polled_after = s.steps[a + 1..].iter().any(is_poll);
            if polled_after && !saw {
                // only data/pending seen: pending after abort would be a lost termination
                if s.steps[a + 1..].iter().any(|st| st.obs == Obs::Pending) {
                    return "FAIL:Pending after abort".into();
                }
            }
        }
    }
    if let Some(x) = drop_body_at {
        // independent bookkeeping of the raw writer's current chunk fill
        let mut fill = 0usize;
        let mut dead = false;
        let mut accepted_after_drop = 0usize;
        for (i, st) in s.steps.iter().enumerate() {
            if Some(i) == writer_drop_at {
                break;
            }
            // (`L` alone: `write_all` of nothing, which makes no call into the writer)
            let is_w = (st.tok.starts_with('W') || st.tok.starts_with('V') || st.tok.starts_with('L')) && st.tok != "L";
            let is_f = st.tok == "F";
            let is_gw = st.tok.starts_with("GW");
            let is_gf = st.tok.starts_with("GF");
            if i > x {
                if dead && (is_w || is_f || is_gw || is_gf) && st.obs != Obs::Err {
                    return format!("FAIL:{} succeeded after an earlier error (step {})", st.tok, i);
                }
                if (is_f || is_gf) && st.obs != Obs::Err {
                    return format!("FAIL:flush succeeded after the body was dropped (step {})", i);
                }
                // "any chunk-completing write returns an error … instead of the writer buffering
                // without bound": which writes complete a chunk is the writer's own business (how
                // it cuts frames is not fixed by any property), so the rule is stated on what can
                // be seen from outside — once the body is gone the writer never again takes in a
                // whole chunk's worth of bytes (it would have had to complete a chunk for that)
                if is_w && s.level == 0 {
                    if let Obs::Wrote(n) = st.obs {
                        accepted_after_drop += n;
                    }
                    if accepted_after_drop >= s.cap {
                        return format!(
                            "FAIL:{} bytes accepted after the body was dropped (chunk size {}): a chunk must have been completed without the writer being told (step {})",
                            accepted_after_drop, s.cap, i
                        );
                    }
                }
            }
            if st.obs == Obs::Err {
                dead = true;
            }
            if is_w {
                if let Obs::Wrote(n) = st.obs {
                    fill = (fill + n) % s.cap;
                } else if st.obs == Obs::Err {
                    fill = s.cap.min(fill + st.input.len());
                }
            }
            if is_f && st.obs == Obs::Ok {
                fill = 0;
            }
        }
    }
    "ok".into()
}

pub fn pred_c12(s: &Session) -> String {
    if s.panicked {
        return "FAIL:panic".into();
    }
    let n = s.steps.len();
    // bytes delivered from step i to the clean end, if the trace ends cleanly
    let clean_end = s.steps.iter().position(|st| st.obs == Obs::End);
    let errored = s.steps.iter().any(|st| st.obs == Obs::PErr);
    for i in 0..n {
        match &s.steps[i].obs {
            Obs::Hint(lower, upper) => {
                if let (Some(end), false) = (clean_end, errored) {
                    if i < end {
                        let d: u64 = s.steps[i..end]
                            .iter()
                            .map(|st| if let Obs::Data(d) = &st.obs { d.len() as u64 } else { 0 })
                            .sum();
                        if *lower > d {
                            return format!("FAIL:hint lower {} > {} bytes still delivered (step {})", lower, d, i);
                        }
                        if let Some(u) = upper {
                            if *u < d {
                                return format!("FAIL:hint upper {} < {} bytes still delivered (step {})", u, d, i);
                            }
                        }
                    }
                }
            }
            Obs::Eos(true) => {
                for later in &s.steps[i + 1..] {
                    if is_poll(later) && later.obs != Obs::End {
                        return format!(
                            "FAIL:is_end_stream at step {} but a later poll gave {}",
                            i,
                            later.show_obs()
                        );
                    }
                }
            }
            _ => {}
        }
    }
    "ok".into()
}

pub fn pred_c20(s: &Session) -> String {
    if s.panicked {
        return "FAIL:panic".into();
    }
    let mut seen = false;
    for (i, st) in s.steps.iter().enumerate() {
        if !is_poll(st) {
            continue;
        }
        if seen && matches!(st.obs, Obs::Data(_) | Obs::Pending | Obs::Panic) {
            return format!("FAIL:{} at step {} after a terminal event", st.show_obs(), i);
        }
        if matches!(st.obs, Obs::End | Obs::PErr) {
            seen = true;
        }
    }
    "ok".into()
}

// ---------------------------------------------------------------------------------------
// History generators

pub fn payload(rng: &mut Rng, n: usize, kind: u64) -> Vec<u8> {
    match kind % 3 {
        0 => (0..n).map(|_| rng.next() as u8).collect(), // incompressible
        1 => vec![b'a'; n],                              // highly compressible
        _ => (0..n).map(|i| b"hello world, "[i % 13]).collect(),
    }
}

pub fn random_history(rng: &mut Rng, cap: usize, len: usize, with_abort: bool, with_body_drop: bool) -> Vec<Op> {
    let mut ops = vec![];
    // (… and writes of many chunks at once, on and off a chunk boundary)
    let sizes = [0usize, 1, cap.saturating_sub(1), cap, cap + 1, 2 * cap, 3 * cap, 8 * cap, 9 * cap + 1, 37, 16 * cap + 5];
    let kind = rng.next();
    for _ in 0..len {
        let sz = (*rng.pick(&sizes)).min(300_000);
        let op = match rng.below(16) {
            0..=3 => Op::Write(payload(rng, sz, kind)),
            4 => {
                let k = 1 + rng.usize(3);
                Op::WriteV((0..k).map(|_| { let sz = (*rng.pick(&sizes)).min(300_000); payload(rng, sz, kind) }).collect())
            }
            5 => Op::WriteAll(payload(rng, sz, kind)),
            6 if rng.chance(1, 2) => Op::WriteAllReal(payload(rng, sz, kind)),
            // one of the literals `write!` is used with (lengths 1 … 8: with the small chunk sizes
            // they fall short of, exactly fill and overflow the current chunk)
            6 => Op::WriteAllReal(rng.pick(&FMT_LITERALS).to_vec()),
            7 | 8 => Op::Flush,
            9 | 10 => Op::PollUntilPending(1 + rng.below(2)),
            11 => Op::Poll(1 + rng.below(3)),
            12 => Op::Hint,
            13 => Op::Eos,
            14 if with_abort && rng.chance(1, 3) => Op::Abort,
            15 if with_body_drop && rng.chance(1, 3) => Op::DropBody,
            _ => Op::Flush,
        };
        ops.push(op);
    }
    ops
}

/// Ends a history the way every history ends: hints sampled, writer dropped, body drained and
/// polled `extra` more times.
pub fn finish(ops: &mut Vec<Op>, extra: usize) {
    ops.push(Op::Hint);
    ops.push(Op::Eos);
    ops.push(Op::DropWriter);
    ops.push(Op::Hint);
    ops.push(Op::Eos);
    ops.push(Op::PollUntilPending(1));
    ops.push(Op::Hint);
    ops.push(Op::Eos);
    for _ in 0..extra {
        ops.push(Op::Poll(1));
    }
}

fn alphabet(cap: usize) -> Vec<Op> {
    let b = |n: usize| -> Vec<u8> { (0..n).map(|i| 0x30 + (i % 10) as u8).collect() };
    vec![
        Op::Write(b(0)),
        Op::Write(b(1)),
        Op::Write(b(cap.saturating_sub(1).max(1))),
        Op::Write(b(cap)),
        Op::Write(b(cap + 1)),
        Op::WriteAll(b(3 * cap)),
        Op::WriteAllReal(b(2 * cap + 1)),
        Op::Flush,
        Op::PollUntilPending(1),
        Op::DropWriter,
    ]
}

fn emit(em: &mut Emit, s: &Session, p: String, class: String) {
    em.case(&s.line(), &s.out(), &p, &class);
}

fn class_of(s: &Session, tag: &str) -> String {
    let count = |f: &dyn Fn(&Step) -> bool| s.steps.iter().filter(|x| f(x)).count().min(3);
    format!(
        "{}:cap{}:w{}f{}d{}p{}e{}",
        tag,
        s.cap.min(8),
        count(&|x| matches!(x.obs, Obs::Wrote(_))),
        count(&|x| x.obs == Obs::Ok),
        count(&|x| matches!(x.obs, Obs::Data(_))),
        count(&|x| x.obs == Obs::Pending),
        count(&|x| x.obs == Obs::Err || x.obs == Obs::PErr),
    )
}

pub fn c08(em: &mut Emit, thorough: bool, seed: u64) {
    let mut rng = Rng::new(seed ^ 0xC08);
    for cap in [1usize, 2, 3, 4, 7] {
        let depth = if thorough { 5 } else if cap <= 2 { 4 } else { 3 };
        let al = alphabet(cap);
        let mut idx = vec![0usize; depth];
        // all sequences of length 1..=depth
        for len in 1..=depth {
            for i in idx.iter_mut() {
                *i = 0;
            }
            loop {
                let mut ops: Vec<Op> = idx[..len].iter().map(|&i| al[i].clone()).collect();
                finish(&mut ops, 2);
                let s = run_ops(cap, 0, &ops);
                emit(em, &s, pred_c08(&s), class_of(&s, "ex"));
                // next
                let mut k = 0;
                loop {
                    if k == len {
                        break;
                    }
                    idx[k] += 1;
                    if idx[k] < al.len() {
                        break;
                    }
                    idx[k] = 0;
                    k += 1;
                }
                if k == len {
                    break;
                }
            }
        }
    }
    // `write!(w, "literal")` landing short of, exactly on and beyond the end of the current chunk,
    // followed by ordinary writes
    for cap in [2usize, 3, 4, 5, 8, 9] {
        for first in 0..cap.min(4) {
            for lit in FMT_LITERALS {
                let mut ops = vec![Op::Write(vec![b'#'; first]), Op::WriteAllReal(lit.to_vec()), Op::Write(b"xy".to_vec()), Op::WriteAll(b"0123456789".to_vec()), Op::PollUntilPending(1)];
                finish(&mut ops, 2);
                let s = run_ops(cap, 0, &ops);
                emit(em, &s, pred_c08(&s), class_of(&s, "fmt"));
            }
        }
    }
    // a stalled reader: hundreds of small flushed writes with nobody polling, then the drain
    for cap in [4usize, 64, 4096] {
        for n in [255usize, 256, 257, 600] {
            let mut ops = vec![];
            for i in 0..n {
                ops.push(Op::WriteAll(vec![b'a' + (i % 26) as u8, b'0' + (i % 10) as u8]));
                ops.push(Op::Flush);
                if i == n / 2 {
                    ops.push(Op::Hint);
                }
            }
            finish(&mut ops, 2);
            let s = run_ops(cap, 0, &ops);
            emit(em, &s, pred_c08(&s), format!("stalled:{}:{}", cap, n));
        }
    }
    let n = if thorough { 60_000 } else { 3_000 };
    for _ in 0..n {
        // mostly tiny chunk sizes (every boundary is hit often), some in the middle, few large
        let cap = if rng.chance(1, 25) {
            *rng.pick(&[4096usize, 65536, 65537])
        } else if rng.chance(1, 8) {
            *rng.pick(&[8usize, 9, 15, 16, 17, 31, 63, 64, 65, 100, 255, 256, 257, 1000, 1023, 4095, 4097])
        } else {
            *rng.pick(&[1usize, 2, 3, 4, 7])
        };
        let len = 1 + rng.usize(if cap > 100 { 6 } else { 60 });
        let mut ops = random_history(&mut rng, cap, len, false, false);
        finish(&mut ops, 2);
        let s = run_ops(cap, 0, &ops);
        emit(em, &s, pred_c08(&s), class_of(&s, "rand"));
    }
}

/// C09: the gzip transport. The decoding clauses are checked by the orchestrator with
/// Python's zlib from the `AUX gz` records.
pub fn c09(em: &mut Emit, thorough: bool, seed: u64) {
    let mut rng = Rng::new(seed ^ 0xC09);
    // a stalled reader: hundreds of small flushed writes with nobody polling, then the drain
    for (cap, level) in [(4096usize, 6u32), (64, 1), (7, 9)] {
        for n in [256usize, 300, 600] {
            let mut s = Session::new(cap, level).expect("build");
            let mut written = vec![];
            for i in 0..n {
                let bs = vec![b'a' + (i % 26) as u8, b'0' + (i % 10) as u8, b'\n'];
                written.extend_from_slice(&bs);
                s.apply(&Op::WriteAll(bs));
                s.apply(&Op::Flush);
            }
            s.apply(&Op::Hint);
            s.apply(&Op::DropWriter);
            s.apply(&Op::PollUntilPending(1));
            s.apply(&Op::Eos);
            s.apply(&Op::Poll(1));
            let frames: Vec<u8> = s.steps.iter().filter_map(|st| if let Obs::Data(d) = &st.obs { Some(d.clone()) } else { None }).flatten().collect();
            let ok = !s.panicked
                && s.steps.iter().any(|st| st.obs == Obs::End)
                && crate::suites_neg::gunzip_ok(&frames, &written);
            let p = pred(ok, || "after many flushes with a stalled reader the body is not one gzip member of the bytes written".into());
            emit(em, &s, p, format!("stalled:{}:{}", cap, n));
        }
    }
    let n = if thorough { 8_000 } else { 1_200 };
    for i in 0..n {
        let cap = *rng.pick(&[1usize, 2, 3, 7, 8, 9, 63, 64, 65, 255, 1000, 4095, 4096, 4097, 65536, 65537]);
        let level = 1 + (i as u32 % 9);
        let len = rng.usize(if cap < 256 { 8 } else { 14 });
        let kind = rng.next();
        let sizes = [0usize, 1, 5, 100, 1000, 70_000];
        let mut ops = vec![];
        for _ in 0..len {
            let sz = *rng.pick(&sizes);
            let sz = if cap < 256 { sz.min(1000) } else { sz };
            ops.push(match rng.below(8) {
                0 | 1 => Op::WriteAll(payload(&mut rng, sz, kind)),
                2 => Op::WriteAllReal(payload(&mut rng, sz, kind)),
                3 => {
                    let k = 2 + rng.usize(2);
                    Op::WriteV((0..k).map(|_| { let sz = *rng.pick(&sizes); let sz = if cap < 256 { sz.min(1000) } else { sz }; payload(&mut rng, sz, kind) }).collect())
                }
                4 => Op::Write(payload(&mut rng, sz, kind)),
                5 | 6 => Op::Flush,
                _ => Op::PollUntilPending(1),
            });
        }
        // run step by step so that the decodability after each flush can be recorded
        let mut s = Session::new(cap, level).expect("build");
        let mut written: Vec<u8> = vec![];
        let mut frames: Vec<u8> = vec![];
        let mut ok = true;
        let mut why = String::new();
        let consume = |s: &mut Session, frames: &mut Vec<u8>, from: usize| {
            for st in &s.steps[from..] {
                if let Obs::Data(d) = &st.obs {
                    frames.extend_from_slice(d);
                }
            }
        };
        for op in &ops {
            let mut before_flush = 0usize;
            if *op == Op::Flush {
                // take what is available already, so that what THIS flush call makes available
                // can be told apart (K2 classification, below)
                let from = s.steps.len();
                s.apply(&Op::PollUntilPending(1));
                consume(&mut s, &mut frames, from);
                before_flush = frames.len();
            }
            let from = s.steps.len();
            s.apply(op);
            for st in &s.steps[from..] {
                if let Obs::Wrote(k) = st.obs {
                    written.extend_from_slice(&st.input[..k]);
                }
                if st.obs == Obs::Err {
                    ok = false;
                    why = format!("{} failed on a live gzip body", st.tok);
                }
            }
            consume(&mut s, &mut frames, from);
            if *op == Op::Flush {
                // everything accepted so far must be decodable from the frames available now
                let from = s.steps.len();
                s.apply(&Op::PollUntilPending(1));
                consume(&mut s, &mut frames, from);
                // how many compressed bytes this flush call made available — measured on the
                // implementation's own frames (K2: flate2's flush stops after one 32 KiB dump)
                let pushed = frames.len() - before_flush;
                em.note("gz", &format!("0 {} {} {}", hex(&frames), hex(&written), pushed));
            }
        }
        let from = s.steps.len();
        s.apply(&Op::Hint);
        s.apply(&Op::DropWriter);
        s.apply(&Op::Hint);
        s.apply(&Op::PollUntilPending(1));
        s.apply(&Op::Eos);
        s.apply(&Op::Poll(1));
        consume(&mut s, &mut frames, from);
        em.note("gz", &format!("1 {} {} 0", hex(&frames), hex(&written)));
        if ok && !s.steps.iter().any(|st| st.obs == Obs::End) {
            ok = false;
            why = "gzip body never ended".into();
        }
        if ok && !crate::suites_neg::gunzip_ok(&frames, &written) {
            ok = false;
            why = "body does not gunzip to the bytes written".into();
        }
        // (an empty frame is C08's business, frame sizes are the model comparison's)
        let _ = cap;
        let p = if s.panicked { "FAIL:panic".to_string() } else { pred(ok, || why.clone()) };
        emit(em, &s, p, class_of(&s, &format!("l{}", level)));
    }
}

/// Free-running threads (no controlled scheduler, so the drop can land while the writer is INSIDE
/// a critical section): a producer completes a chunk with every write while the response body is
/// dropped at a varying moment; from then on the producer must be told within a bounded number of
/// operations. Returns the first trial that went wrong.
fn drop_race(gz: bool, trials: usize) -> Result<(), String> {
    for t in 0..trials {
        let mut b = http::Request::get("/");
        if gz {
            b = b.header("accept-encoding", "gzip");
        }
        let req = b.body(()).unwrap();
        let (resp, w) = http_serve::streaming_body(&req).with_chunk_size(1).with_gzip_level(1).build::<Bytes, BoxError>();
        let mut w = w.unwrap();
        let dropped = Arc::new(std::sync::atomic::AtomicBool::new(false));
        let d2 = dropped.clone();
        let h = std::thread::spawn(move || -> Result<(), String> {
            let mut after = 0usize;
            let mut x = 0u8;
            loop {
                let gone = d2.load(std::sync::atomic::Ordering::SeqCst);
                x = x.wrapping_mul(31).wrapping_add(7);
                let r = w.write_all(&[x, x ^ 0x5a, x.wrapping_add(1)]).and_then(|_| w.flush());
                if r.is_err() {
                    return Ok(());
                }
                if gone {
                    after += 1;
                    if after > 3000 {
                        return Err(format!("3000 write+flush calls succeeded after the body was dropped (gzip={})", gz));
                    }
                }
            }
        });
        // let the producer get going, then drop at a moment that varies with the trial
        for _ in 0..(t % 7) * 50 {
            std::hint::spin_loop();
        }
        drop(resp);
        dropped.store(true, std::sync::atomic::Ordering::SeqCst);
        match h.join() {
            Ok(Ok(())) => {}
            Ok(Err(e)) => return Err(format!("trial {}: {}", t, e)),
            Err(_) => return Err(format!("trial {}: producer panicked", t)),
        }
    }
    Ok(())
}

/// "… and what was queued is released, instead of the writer buffering … for a consumer that no
/// longer exists": chunks are queued (and, in half of the cases, a waker parked), the body is
/// dropped while the writer stays alive and idle, and the bytes the body held must be gone at
/// once — not when the writer next calls in. Then the writer is told.
fn release_on_body_drop(em: &mut Emit) {
    use http_body::Body as _;
    use std::io::Write as _;
    let live = || crate::LIVE_BYTES.load(std::sync::atomic::Ordering::SeqCst);
    // (chunk size, bytes written and flushed, gzip, a waker parked first)
    for (cap, total, gz, park) in [(4096usize, 4usize << 20, false, false), (64, 1 << 20, false, true), (65536, 8 << 20, false, true), (4096, 4 << 20, true, false)] {
        let mut rb = http::Request::get("/");
        if gz {
            rb = rb.header("accept-encoding", "gzip");
        }
        let req = rb.body(()).unwrap();
        let r = std::panic::catch_unwind(std::panic::AssertUnwindSafe(|| {
            let (resp, w) = http_serve::streaming_body(&req).with_chunk_size(cap).with_gzip_level(1).build::<Bytes, BoxError>();
            let mut w = w.unwrap();
            let mut body = Box::pin(resp.into_body());
            if park {
                // nothing queued yet: the poll parks a waker in the shared state
                let log = Arc::new(Mutex::new(vec![]));
                let waker = mk_waker(1, &log);
                let mut cx = std::task::Context::from_waker(&waker);
                let _ = body.as_mut().poll_frame(&mut cx);
            }
            // incompressible, so that gzip queues about as much as was written
            let mut x = 0x9E37_79B9_7F4A_7C15u64;
            let payload: Vec<u8> = (0..total).map(|_| { x ^= x << 13; x ^= x >> 7; x ^= x << 17; x as u8 }).collect();
            let base = live();
            let _ = w.write_all(&payload);
            let _ = w.flush();
            let queued = live() - base;
            drop(body);
            let after_drop = live() - base;
            let flush_fails = { let _ = w.write_all(b"x"); w.flush().is_err() };
            drop(w);
            drop(payload);
            (queued, after_drop, flush_fails)
        }));
        let (ok, why) = match r {
            Err(_) => (false, "panic".to_string()),
            Ok((queued, after_drop, flush_fails)) => {
                if queued < total as i64 / 2 {
                    (false, format!("only {} bytes were queued for {} written and flushed", queued, total))
                } else if after_drop > queued / 4 {
                    (false, format!("{} of the {} bytes queued are still allocated after the body was dropped (the writer is alive and idle)", after_drop, queued))
                } else if !flush_fails {
                    (false, "flush succeeded after the body was dropped".to_string())
                } else {
                    (true, String::new())
                }
            }
        };
        em.pred_only(
            &format!("chunk size {}, {} bytes written and flushed (gzip={}, waker parked={}), body dropped while the writer idles: what was queued is released at once", cap, total, gz, park),
            &pred(ok, || why.clone()),
            "release",
        );
    }
}

pub fn c11(em: &mut Emit, thorough: bool, seed: u64) {
    release_on_body_drop(em);
    let mut rng = Rng::new(seed ^ 0xC11);
    for gz in [false, true] {
        let trials = if thorough { 3000 } else { 400 };
        let r = drop_race(gz, trials);
        em.pred_only(
            &format!("{} trials: the body is dropped while a free-running producer thread completes chunks (gzip={})", trials, gz),
            &match r { Ok(()) => "ok".to_string(), Err(e) => format!("FAIL:{}", e) },
            "drop-race",
        );
    }
    // corpus: F8 — drop the body, then keep writing and flushing
    {
        let mut ops = vec![Op::DropBody];
        for _ in 0..20 {
            ops.push(Op::WriteAll(b"12345678".to_vec()));
            ops.push(Op::Flush);
        }
        ops.push(Op::DropWriter);
        let s = run_ops(4, 0, &ops);
        emit(em, &s, pred_c11(&s), "corpus".into());
    }
    // what the body says about itself between an abort and the delivery of its error
    for level in [0u32, 6] {
        for prefix in 0..4 {
            let mut ops = vec![];
            match prefix {
                1 => ops.push(Op::Poll(1)),
                2 => { ops.push(Op::WriteAll(b"abcdefgh".to_vec())); ops.push(Op::Flush); ops.push(Op::Poll(1)); }
                3 => { ops.push(Op::WriteAll(b"ab".to_vec())); }
                _ => {}
            }
            ops.extend([Op::Abort, Op::Hint, Op::Eos, Op::Hint, Op::PollUntilPending(1), Op::Hint, Op::Eos, Op::Poll(1), Op::DropWriter, Op::Poll(1)]);
            let s = run_ops(4, level, &ops);
            emit(em, &s, pred_c11(&s), format!("abort-then-hint:{}:{}", level, prefix));
        }
    }
    // abort / body drop inserted at every position of short exhaustive histories
    let depth = if thorough { 4 } else { 3 };
    for cap in [1usize, 2, 4] {
        let al = alphabet(cap);
        let al: Vec<Op> = al.into_iter().filter(|o| *o != Op::DropWriter).collect();
        let mut seqs: Vec<Vec<usize>> = vec![vec![]];
        for _ in 0..depth {
            let mut next = vec![];
            for s in &seqs {
                if s.len() + 1 <= depth {
                    for i in 0..al.len() {
                        let mut t = s.clone();
                        t.push(i);
                        next.push(t);
                    }
                }
            }
            seqs.extend(next.clone());
            if next.is_empty() {
                break;
            }
        }
        seqs.sort();
        seqs.dedup();
        for seq in &seqs {
            for pos in 0..=seq.len() {
                for (fault, gz) in [(Op::Abort, false), (Op::DropBody, false), (Op::Abort, true), (Op::DropBody, true)] {
                    if gz && (cap != 2 || seq.len() > 2) {
                        continue;
                    }
                    let mut ops: Vec<Op> = seq.iter().map(|&i| al[i].clone()).collect();
                    ops.insert(pos, fault.clone());
                    // after the fault: observe, then try to keep producing
                    ops.push(Op::Eos);
                    ops.push(Op::Write(b"x".to_vec()));
                    ops.push(Op::Flush);
                    ops.push(Op::Write(b"yz".to_vec()));
                    ops.push(Op::Flush);
                    ops.push(Op::Eos);
                    ops.push(Op::PollUntilPending(1));
                    ops.push(Op::Eos);
                    ops.push(Op::Poll(1));
                    ops.push(Op::DropWriter);
                    ops.push(Op::Poll(1));
                    let s = run_ops(cap, if gz { 6 } else { 0 }, &ops);
                    let tag = format!(
                        "{}{}",
                        if fault == Op::Abort { "abort" } else { "bodydrop" },
                        if gz { "-gz" } else { "" }
                    );
                    emit(em, &s, pred_c11(&s), class_of(&s, &tag));
                }
            }
        }
    }
    let n = if thorough { 40_000 } else { 2_000 };
    for i in 0..n {
        let cap = if rng.chance(1, 25) { 4096usize } else { *rng.pick(&[1usize, 2, 3, 4, 7]) };
        let len = 1 + rng.usize(if cap > 100 { 6 } else { 30 });
        let mut ops = random_history(&mut rng, cap, len, true, true);
        finish(&mut ops, 2);
        let level = if i % 4 == 0 { 1 + (i as u32 % 9) } else { 0 };
        let s = run_ops(cap, level, &ops);
        emit(em, &s, pred_c11(&s), class_of(&s, "rand"));
    }
}

pub fn c12_chunk(em: &mut Emit, thorough: bool, seed: u64) {
    let mut rng = Rng::new(seed ^ 0xC12C);
    let n = if thorough { 40_000 } else { 2_500 };
    for i in 0..n {
        let cap = if rng.chance(1, 25) { 4096usize } else { *rng.pick(&[1usize, 2, 3, 4, 7]) };
        let len = 1 + rng.usize(if cap > 100 { 6 } else { 25 });
        let mut ops = vec![];
        for op in random_history(&mut rng, cap, len, i % 3 == 0, false) {
            ops.push(Op::Hint);
            ops.push(Op::Eos);
            ops.push(op);
        }
        finish(&mut ops, 2);
        let level = if i % 5 == 0 { 6 } else { 0 };
        let s = run_ops(cap, level, &ops);
        emit(em, &s, pred_c12(&s), class_of(&s, "hint"));
    }
}

pub fn c20_chunk(em: &mut Emit, thorough: bool, seed: u64) {
    let mut rng = Rng::new(seed ^ 0xC20C);
    let n = if thorough { 40_000 } else { 2_500 };
    for i in 0..n {
        let cap = if rng.chance(1, 25) { 4096usize } else { *rng.pick(&[1usize, 2, 3, 4, 7]) };
        let len = 1 + rng.usize(if cap > 100 { 6 } else { 20 });
        let mut ops = random_history(&mut rng, cap, len, i % 2 == 0, false);
        finish(&mut ops, 4);
        let level = if i % 5 == 0 { 6 } else { 0 };
        let s = run_ops(cap, level, &ops);
        emit(em, &s, pred_c20(&s), class_of(&s, "fuse"));
    }
}
