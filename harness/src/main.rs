//! `hsharness gen <PROPERTY> <quick|thorough> <seed>`: runs the implementation on the cases
//! of that property's suite and prints one record per case (tab separated):
//!
//!   CASE <protocol line for the model> <implementation's canonical output> <pred> <class>
//!   PRED <description> <pred> <class>         (implementation-side predicate only)
//!   KNOWN <id> <what>                         (a listed known finding was hit)
//!   NOTE <key> <value>

mod common;
mod gen;
mod sched;
mod suites_body;
mod suites_chunk;
mod suites_env;
mod suites_fs;
mod suites_neg;
mod suites_sched;
mod suites_serve;

use common::Emit;

/// The system allocator with a count of the bytes currently allocated: lets a suite see memory
/// being released (C11: "what was queued is released" when the body is dropped).
pub struct CountingAlloc;
pub static LIVE_BYTES: std::sync::atomic::AtomicI64 = std::sync::atomic::AtomicI64::new(0);
unsafe impl std::alloc::GlobalAlloc for CountingAlloc {
    unsafe fn alloc(&self, l: std::alloc::Layout) -> *mut u8 {
        let p = std::alloc::System.alloc(l);
        if !p.is_null() {
            LIVE_BYTES.fetch_add(l.size() as i64, std::sync::atomic::Ordering::Relaxed);
        }
        p
    }
    unsafe fn dealloc(&self, p: *mut u8, l: std::alloc::Layout) {
        LIVE_BYTES.fetch_sub(l.size() as i64, std::sync::atomic::Ordering::Relaxed);
        std::alloc::System.dealloc(p, l)
    }
    unsafe fn realloc(&self, p: *mut u8, l: std::alloc::Layout, new_size: usize) -> *mut u8 {
        let q = std::alloc::System.realloc(p, l, new_size);
        if !q.is_null() {
            LIVE_BYTES.fetch_add(new_size as i64 - l.size() as i64, std::sync::atomic::Ordering::Relaxed);
        }
        q
    }
}
#[global_allocator]
static GLOBAL: CountingAlloc = CountingAlloc;

fn main() {
    let args: Vec<String> = std::env::args().collect();
    if args.len() < 5 || args[1] != "gen" {
        eprintln!("usage: hsharness gen <PROPERTY> <quick|thorough> <seed>");
        std::process::exit(2);
    }
    let prop = args[2].as_str();
    let thorough = args[3] == "thorough";
    let seed: u64 = args[4].parse().expect("seed");
    // panics are observations, not noise
    std::panic::set_hook(Box::new(|_| {}));
    let stdout = std::io::stdout();
    let shared = common::SharedOut(std::sync::Arc::new(std::sync::Mutex::new(
        std::io::BufWriter::with_capacity(1 << 20, stdout),
    )));
    let idle_limit = std::env::var("HS_HANG_SECS").ok().and_then(|s| s.parse().ok()).unwrap_or(60);
    common::start_watchdog(shared.clone(), idle_limit);
    let mut em = Emit { out: Box::new(shared), n: 0 };
    // HS_SHARD=i/k splits the schedule suites over k processes; everything else runs in shard 0
    let shard0 = std::env::var("HS_SHARD").map_or(true, |s| s.starts_with("0/"));
    let run = std::panic::catch_unwind(std::panic::AssertUnwindSafe(|| {
    match prop {
        "C01" => suites_body::c01(&mut em, thorough, seed),
        "C02" => suites_body::c02(&mut em, thorough, seed),
        "C03" => suites_serve::c03(&mut em, thorough, seed),
        "C04" => suites_serve::c04(&mut em, thorough, seed),
        "C05" => suites_serve::c05(&mut em, thorough, seed),
        "C06" => suites_body::c06(&mut em, thorough, seed),
        "C07" => suites_body::c07(&mut em, thorough, seed),
        "C08" => {
            suites_chunk::c08(&mut em, thorough, seed);
            suites_sched::run_small_for_c08(&mut em, thorough);
        }
        "C09" => {
            suites_chunk::c09(&mut em, thorough, seed);
            suites_sched::run_small_for_c09(&mut em, thorough);
            if shard0 {
                suites_env::many_live_gzip_writers(&mut em);
            }
        }
        "C10" => {
            suites_sched::run_suite(&mut em, thorough, seed, false, false);
            suites_sched::run_gz_suite(&mut em, thorough);
            suites_sched::free_running(&mut em, thorough);
            suites_sched::inline_waker(&mut em);
            if shard0 {
                suites_env::idle_runtime_producer(&mut em);
                suites_env::large_chunk_wake(&mut em);
            }
        }
        "C11" => {
            if shard0 {
                suites_chunk::c11(&mut em, thorough, seed);
                suites_env::body_dropped_in_current_thread_runtime(&mut em);
            }
            suites_sched::run_suite(&mut em, thorough, seed, true, false);
            suites_sched::run_suite(&mut em, false, seed, true, true);
        }
        "C12" => {
            suites_body::c12_serve(&mut em, thorough, seed);
            suites_chunk::c12_chunk(&mut em, thorough, seed);
            suites_env::hint_race(&mut em, if thorough { 200_000 } else { 30_000 });
        }
        "C13" => {
            suites_serve::c13(&mut em, thorough, seed);
            suites_fs::file_outside_runtime(&mut em);
        }
        "C14" => {
            suites_serve::c14(&mut em, thorough, seed);
            suites_serve::c14_clock_crossing(&mut em);
        }
        "C15" => {
            suites_serve::c15(&mut em, thorough, seed);
            suites_neg::c17(&mut em, false, seed);
        }
        "C16" => suites_neg::c16(&mut em, thorough, seed),
        "C17" => {
            suites_neg::c17(&mut em, thorough, seed);
            suites_env::many_live_gzip_writers(&mut em);
        }
        "C18" => suites_fs::c18(&mut em, thorough, seed),
        "C19" => suites_fs::c19(&mut em, thorough, seed),
        "C20" => {
            if shard0 {
                suites_body::c20_serve(&mut em, thorough, seed);
                suites_chunk::c20_chunk(&mut em, thorough, seed);
            }
            suites_sched::run_suite_with(&mut em, thorough, true, false, true);
        }
        _ => {
            eprintln!("unknown property {}", prop);
            std::process::exit(2);
        }
    }
    }));
    if run.is_err() {
        // a panic of the code under test outside a guarded call (the guarded ones are recorded
        // as outcomes): report what was running as a failed predicate; earlier records stay valid
        em.pred_only(
            &common::current_desc(),
            "FAIL:panic in the code under test (in a call the harness does not expect to panic)",
            "panic",
        );
    }
    use std::io::Write;
    em.out.flush().unwrap();
}
