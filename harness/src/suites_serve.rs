//! Suites that exercise `serve` up to the response head: C03, C04, C05, C13, C14, C15.

use crate::common::*;
use crate::gen::*;
use std::time::{Duration, UNIX_EPOCH};

fn strong(o: &[u8]) -> Tag {
    Tag {
        weak: false,
        opaque: o.to_vec(),
    }
}
fn weak(o: &[u8]) -> Tag {
    Tag {
        weak: true,
        opaque: o.to_vec(),
    }
}

pub fn status_class(o: &Observed) -> String {
    if o.panicked {
        "panic".into()
    } else {
        let k = match &o.plan {
            Plan::Once(_) => "once",
            Plan::Empty => "empty",
            Plan::Exact(..) => "exact",
            Plan::Multipart(..) => "multipart",
            Plan::MultipartHead(..) => "multipart1",
            Plan::Unknown(_) => "unknown",
        };
        format!("{}:{}", o.status, k)
    }
}

fn dec_u128(b: &[u8]) -> Option<u128> {
    std::str::from_utf8(b).ok()?.parse().ok()
}

/// Parses `bytes a-b/L` (independent of the crate).
pub fn parse_content_range(v: &[u8]) -> Option<(u128, u128, u128)> {
    let r = v.strip_prefix(b"bytes ")?;
    let slash = r.iter().position(|&c| c == b'/')?;
    let (ab, l) = (&r[..slash], &r[slash + 1..]);
    let hy = ab.iter().position(|&c| c == b'-')?;
    Some((dec_u128(&ab[..hy])?, dec_u128(&ab[hy + 1..])?, dec_u128(l)?))
}

// ---------------------------------------------------------------------------------------
// C03

/// The C03 oracle on one request that carries only a Range header.
pub fn c03_pred(specs: Option<&[RenderedSpec]>, len: u64, o: &Observed) -> String {
    if o.panicked {
        return "FAIL:serve panicked".into();
    }
    let l = len as u128;
    let whole_200 = o.status == 200
        && o.header("content-range").is_none()
        && (o.plan == Plan::Exact(0, len));
    let specs = match specs {
        None => return pred(whole_200, || format!("ungrammatical Range not ignored: {}", o.show())),
        Some(s) => s,
    };
    if !spec_numbers_fit(specs) {
        return pred(whole_200, || {
            format!("Range with a number >= 2^64 not ignored: {}", o.show())
        });
    }
    let sat: Vec<(u128, u128)> = specs.iter().filter_map(|s| resolve(&s.spec, l)).collect();
    if sat.is_empty() {
        let ok = o.status == 416
            && o.header("content-range") == Some(format!("bytes */{}", len).as_bytes())
            && o.plan == Plan::Empty;
        return pred(ok, || format!("expected 416 bytes */{}: {}", len, o.show()));
    }
    if sat.len() == 1 {
        let (a, b) = sat[0];
        let ok = o.status == 206
            && o.header("content-range") == Some(format!("bytes {}-{}/{}", a, b, len).as_bytes())
            && o.plan == Plan::Exact(a as u64, (b + 1) as u64);
        return pred(ok, || {
            format!("expected 206 of {}-{}/{}: {}", a, b, len, o.show())
        });
    }
    let sum: u128 = sat.iter().map(|(a, b)| b - a + 1).sum();
    let est: u128 = sat.iter().map(|(a, b)| 80 + b - a + 1).sum();
    let want: Vec<(u64, u64)> = sat.iter().map(|&(a, b)| (a as u64, (b + 1) as u64)).collect();
    let is_multipart = o.status == 206
        && o.header("content-range").is_none()
        && o
            .header("content-type")
            .map_or(false, |v| v.starts_with(b"multipart/byteranges"));
    let multipart_ok = is_multipart
        && match &o.plan {
            Plan::Multipart(_, rs, _) => *rs == want,
            Plan::MultipartHead(ph, _) => {
                // only the first part is observable
                let (a, b) = sat[0];
                let needle = format!("Content-Range: bytes {}-{}/{}\r\n", a, b, len);
                ph.windows(needle.len()).any(|w| w == needle.as_bytes())
            }
            _ => false,
        };
    if 2 * est < l {
        // must be multipart, unless its exact length is not representable (413)
        if o.status == 413 {
            // only legitimate when the exact multipart length >= 2^64: the part headers are
            // at most ~200 bytes each here, so require the payload itself to be near 2^64.
            let ok = sum + 40 * (sat.len() as u128) >= (1u128 << 64) - 400 * (sat.len() as u128);
            return pred(ok, || format!("413 for a representable multipart: {}", o.show()));
        }
        return pred(multipart_ok, || {
            format!("expected multipart of {:?}: {}", want, o.show())
        });
    }
    if sum >= l {
        return pred(whole_200, || {
            format!("ranges total >= L, expected complete 200: {}", o.show())
        });
    }
    let ok = whole_200 || multipart_ok || o.status == 413;
    pred(ok, || {
        format!("expected multipart of {:?} or complete 200: {}", want, o.show())
    })
}

fn emit_c03(em: &mut Emit, specs: &[RenderedSpec], len: u64) {
    let mut q = HReq::get();
    q.range = Some(render_specs(specs));
    let e = HEntity::new(len);
    let o = observe_serve(&q, &e);
    let p = c03_pred(Some(specs), len, &o);
    let class = format!("n{}:{}", specs.len().min(4), status_class(&o));
    em.case(&serve_line(&q, &e, o.now), &o.show(), &p, &class);
}

fn all_specs(positions: &[u128]) -> Vec<Spec> {
    let mut v = vec![];
    for &a in positions {
        for &b in positions {
            v.push(Spec::FromTo(a, b));
        }
        v.push(Spec::From(a));
        v.push(Spec::Suffix(a));
    }
    v
}

pub fn c03(em: &mut Emit, thorough: bool, seed: u64) {
    let mut rng = Rng::new(seed ^ 0xC03);
    // corpus: past failures first
    for (h, len) in [
        (&b"bytes=0-18446744073709551615"[..], 10u64),
        (b"bytes=-0", 10),
        (b"bytes=-10", 10),
        (b"bytes=-11", 10),
        (b"bytes=+1-2", 10),
        (b"bytes=-+3", 10),
        (b"bytes=1-2 ,3-4", 1000),
    ] {
        let mut q = HReq::get();
        q.range = Some(h.to_vec());
        let e = HEntity::new(len);
        let o = observe_serve(&q, &e);
        // corpus lines are judged by the model comparison; the oracle needs an AST
        em.case(&serve_line(&q, &e, o.now), &o.show(), "ok", "corpus");
    }
    // values no reading of the grammar accepts: ignored, a complete 200
    for h in [
        &b""[..], b"bytes", b"bytes=", b"bytes=,", b"bytes= , ,", b"bytes=\t", b"bytes=-", b"bytes=,-", b"bytes=0-1,-",
        b"bytes=0-1;2-3", b"bytes=0-1,x", b"bytes=0 -1", b"octets=0-1", b"=0-1", b"bytes=0-1-2", b"bytes==0-1",
    ] {
        for len in [0u64, 10, 1000] {
            let mut q = HReq::get();
            q.range = Some(h.to_vec());
            let e = HEntity::new(len);
            let o = observe_serve(&q, &e);
            let p = pred(
                !o.panicked && o.status == 200 && o.header("content-range").is_none(),
                || format!("outside the grammar but not ignored: {}", o.show()),
            );
            debug_assert_eq!(range_grammar(h), RangeGrammar::Outside);
            em.case(&serve_line(&q, &e, o.now), &o.show(), &p, "outside-grammar");
        }
    }
    // exhaustive, small L
    let max_single = if thorough { 6 } else { 5 };
    let max_pair = if thorough { 4 } else { 2 };
    let ows3: [(&[u8], &[u8]); 3] = [(b"", b""), (b" ", b""), (b"\t ", b" ")];
    for len in 0..=max_single {
        let pos: Vec<u128> = (0..=(len as u128 + 2)).collect();
        let specs = all_specs(&pos);
        for s in &specs {
            emit_c03(em, &[plain(s.clone())], len);
        }
        if len <= max_pair {
            for s1 in &specs {
                for s2 in &specs {
                    for (before, after) in ows3 {
                        let r1 = plain(s1.clone());
                        let mut r2 = plain(s2.clone());
                        r2.ows_before = before.to_vec();
                        let mut r1 = r1;
                        r1.ows_after = after.to_vec();
                        emit_c03(em, &[r1, r2], len);
                    }
                }
            }
        }
    }
    if thorough {
        for len in 0..=2u64 {
            let pos: Vec<u128> = (0..=(len as u128 + 2)).collect();
            let specs = all_specs(&pos);
            for s1 in &specs {
                for s2 in &specs {
                    for s3 in &specs {
                        emit_c03(
                            em,
                            &[plain(s1.clone()), plain(s2.clone()), plain(s3.clone())],
                            len,
                        );
                    }
                }
            }
        }
    }
    // exhaustive pairs on an entity large enough for multipart
    {
        let len = 1000u64;
        let pos: Vec<u128> = vec![0, 1, 500, 999, 1000, 1001];
        let specs = all_specs(&pos);
        for s1 in &specs {
            for s2 in &specs {
                emit_c03(em, &[plain(s1.clone()), plain(s2.clone())], len);
            }
        }
    }
    // random: 1..8 specs, boundary numbers, OWS, leading zeros
    let lens: [u64; 12] = [
        1,
        2,
        10,
        240,
        1000,
        100_000,
        1 << 32,
        1 << 63,
        u64::MAX - 1,
        u64::MAX,
        170,
        400,
    ];
    let n_random = if thorough { 300_000 } else { 20_000 };
    for _ in 0..n_random {
        let len = *rng.pick(&lens);
        let many = rng.chance(1, 4);
        let n = if rng.chance(1, 200) { *rng.pick(&[63usize, 64, 65, 100, 257, 600]) } else { 1 + rng.usize(if many { 8 } else { 3 }) };
        let specs: Vec<RenderedSpec> = (0..n).map(|_| random_rendered(&mut rng, len)).collect();
        emit_c03(em, &specs, len);
    }
    // malformed stream: must be ignored (complete 200) or, when it happens to be grammatical,
    // agree with the model
    let n_mal = if thorough { 50_000 } else { 5_000 };
    for _ in 0..n_mal {
        let v = malformed_range(&mut rng);
        let len = *rng.pick(&[0u64, 10, 1000]);
        let mut q = HReq::get();
        q.range = Some(v.clone());
        let e = HEntity::new(len);
        let o = observe_serve(&q, &e);
        let g = range_grammar(&v);
        let p = if g == RangeGrammar::Outside {
            pred(!o.panicked && o.status == 200 && o.header("content-range").is_none(), || {
                format!("outside the grammar but not ignored: {}", o.show())
            })
        } else {
            pred(!o.panicked, || "serve panicked".into())
        };
        em.case(
            &serve_line(&q, &e, o.now),
            &o.show(),
            &p,
            &format!("mal:{:?}:{}", g, status_class(&o)),
        );
    }
}

// ---------------------------------------------------------------------------------------
// C04

pub const T0: u64 = 784_111_777; // Sun, 06 Nov 1994 08:49:37 GMT

fn tag_variants(e_opaque: &[u8]) -> Vec<TagHdr> {
    let l = |v: Vec<(Tag, &[u8])>| {
        TagHdr::List(v.into_iter().map(|(t, o)| (t, o.to_vec())).collect())
    };
    vec![
        TagHdr::Absent,
        TagHdr::Star,
        l(vec![(strong(e_opaque), b"")]),
        l(vec![(weak(e_opaque), b"")]),
        l(vec![(strong(b"x"), b"")]),
        l(vec![(strong(b"x"), b" "), (strong(e_opaque), b"")]),
        l(vec![(weak(e_opaque), b""), (strong(b"x"), b"")]),
        l(vec![
            (strong(b"x"), b" "),
            (weak(b"y"), b"\t"),
            (strong(b"a,b"), b" \t "),
            (strong(e_opaque), b""),
        ]),
        l(vec![(strong(b"a"), b"")]),
        l(vec![(strong(b"a, b "), b" "), (weak(b"x"), b"")]),
        l(vec![(weak(b"x"), b"\t"), (weak(e_opaque), b"")]),
        l(vec![(strong(b"x, y"), b" "), (strong(b"y"), b"")]),
        // the entity's tag in another letter case is another tag (entity-tags are opaque)
        l(vec![(strong(&e_opaque.to_ascii_uppercase()), b"")]),
        l(vec![(weak(&e_opaque.to_ascii_uppercase()), b" "), (strong(b"x"), b"")]),
    ]
}

pub fn c04_pred(
    etag: Option<&Tag>,
    mtime_secs: Option<u64>,
    im: &TagHdr,
    inm: &TagHdr,
    ius: Option<u64>,
    ims: Option<u64>,
    o: &Observed,
) -> String {
    if o.panicked {
        return "FAIL:serve panicked".into();
    }
    let (e412, e304) = spec_cond(etag, mtime_secs, im, inm, ius, ims);
    let want = if e412 {
        412
    } else if e304 {
        304
    } else {
        200
    };
    pred(o.status == want, || {
        format!("expected {} got {}", want, o.status)
    })
}

pub fn c04(em: &mut Emit, thorough: bool, seed: u64) {
    let opaque: &[u8] = b"a, b";
    let etags: [Option<Tag>; 3] = [None, Some(strong(opaque)), Some(weak(opaque))];
    let mtimes: [Option<(u64, u32)>; 3] = [None, Some((T0, 0)), Some((T0, 500_000_000))];
    let dates: [Option<u64>; 4] = [None, Some(T0 - 1), Some(T0), Some(T0 + 1)];
    let variants = tag_variants(opaque);
    let mut fmt_counter = 0usize;
    // the harness's own date formatter against the parser the crate uses
    for s in [0u64, 1, 86_399, 86_400, 951_782_400, 951_868_799, T0, 2_147_483_647, 2_147_483_648, 3_000_000_000] {
        for f in [1u8, 2] {
            let text = fmt_date(s, f);
            let back = httpdate::parse_http_date(std::str::from_utf8(&text).unwrap())
                .ok()
                .and_then(|t| t.duration_since(UNIX_EPOCH).ok())
                .map(|d| d.as_secs());
            // (RFC 850 has a two-digit year: only 1970..2069 round-trips)
            if f == 2 || s < 3_155_760_000 {
                em.pred_only(
                    &format!("date formatter: {} in format {} is {:?}", s, f, String::from_utf8_lossy(&text)),
                    &pred(back == Some(s), || format!("parses back as {:?}", back)),
                    "datefmt",
                );
            }
        }
    }
    // corpus
    {
        let mut e = HEntity::new(10);
        e.etag = Some(b"\"foo\"".to_vec());
        e.mtime = Some(UNIX_EPOCH + Duration::new(T0, 500_000_000));
        for (ius, ims, im) in [
            (DateH::Secs(T0), DateH::Absent, None),
            (DateH::Absent, DateH::Secs(T0), None),
            (DateH::Secs(T0 - 100), DateH::Absent, Some(b"\"foo\"".to_vec())),
            (DateH::Secs(T0 - 100), DateH::Absent, Some(b"*".to_vec())),
        ] {
            let mut q = HReq::get();
            q.ius = ius;
            q.ims = ims;
            q.if_match = im;
            let o = observe_serve(&q, &e);
            em.case(&serve_line(&q, &e, o.now), &o.show(), "ok", "corpus");
        }
    }
    for et in &etags {
        for mt in &mtimes {
            let mut e = HEntity::new(10);
            e.etag = et.as_ref().map(|t| t.render());
            e.mtime = mt.map(|(s, n)| UNIX_EPOCH + Duration::new(s, n));
            for im in &variants {
                for inm in &variants {
                    for ius in &dates {
                        for ims in &dates {
                            for method in ["GET", "HEAD"] {
                                let mut q = HReq::get();
                                q.method = method.into();
                                q.if_match = im.render();
                                q.if_none_match = inm.render();
                                q.ius = ius.map_or(DateH::Absent, DateH::Secs);
                                q.ims = ims.map_or(DateH::Absent, DateH::Secs);
                                // the three HTTP-date formats in rotation
                                fmt_counter += 1;
                                q.date_fmt = (fmt_counter % 3) as u8;
                                let o = observe_serve(&q, &e);
                                let p = c04_pred(
                                    et.as_ref(),
                                    mt.map(|m| m.0),
                                    im,
                                    inm,
                                    *ius,
                                    *ims,
                                    &o,
                                );
                                let class = format!(
                                    "{}{}{}{}:{}",
                                    if matches!(im, TagHdr::Absent) { "-" } else { "M" },
                                    if matches!(inm, TagHdr::Absent) { "-" } else { "N" },
                                    if ius.is_some() { "U" } else { "-" },
                                    if ims.is_some() { "S" } else { "-" },
                                    o.status
                                );
                                em.case(&serve_line(&q, &e, o.now), &o.show(), &p, &class);
                            }
                        }
                    }
                }
            }
        }
    }
    // an entity whose own tag looks like a proxy-modified one: still compared as it is
    for opq in [&b"x-gzip"[..], b"x-br", b"x;gzip"] {
        let tv = tag_variants(opq);
        for et in [Some(strong(opq)), Some(weak(opq)), Some(strong(b"x"))] {
            let mut e = HEntity::new(10);
            e.etag = et.as_ref().map(|t| t.render());
            e.mtime = Some(UNIX_EPOCH + Duration::new(T0, 0));
            for im in &tv {
                for inm in &tv {
                    let mut q = HReq::get();
                    q.if_match = im.render();
                    q.if_none_match = inm.render();
                    let o = observe_serve(&q, &e);
                    let p = c04_pred(et.as_ref(), Some(T0), im, inm, None, None, &o);
                    em.case(&serve_line(&q, &e, o.now), &o.show(), &p, &format!("marker-tag:{}", o.status));
                }
            }
        }
    }
    // a modification time in the future (clock skew): the date conditions are still evaluated
    // against the entity's modification time, also for dates between now and that time
    {
        let now = std::time::SystemTime::now().duration_since(UNIX_EPOCH).unwrap().as_secs();
        let m = now + 7200;
        // (`u64::MAX`: resolved per call to the wall-clock second of the call — the very second a
        // response clamps a future Last-Modified to, and what a client echoes a moment later)
        let fdates: [Option<u64>; 7] = [None, Some(now - 3600), Some(now + 3600), Some(m - 1), Some(m), Some(m + 1), Some(u64::MAX)];
        for et in &etags {
            for nanos in [0u32, 250_000_000] {
                let mut e = HEntity::new(10);
                e.etag = et.as_ref().map(|t| t.render());
                e.mtime = Some(UNIX_EPOCH + Duration::new(m, nanos));
                for ius in &fdates {
                    for ims in &fdates {
                        for method in ["GET", "HEAD"] {
                            let mut q = HReq::get();
                            q.method = method.into();
                            let this_second = std::time::SystemTime::now().duration_since(UNIX_EPOCH).unwrap().as_secs();
                            let resolve = |d: &Option<u64>| d.map(|s| if s == u64::MAX { this_second } else { s });
                            let (ius, ims) = (&resolve(ius), &resolve(ims));
                            q.ius = ius.map_or(DateH::Absent, DateH::Secs);
                            q.ims = ims.map_or(DateH::Absent, DateH::Secs);
                            fmt_counter += 1;
                            q.date_fmt = (fmt_counter % 3) as u8;
                            let o = observe_serve(&q, &e);
                            let p = c04_pred(et.as_ref(), Some(m), &TagHdr::Absent, &TagHdr::Absent, *ius, *ims, &o);
                            em.case(&serve_line(&q, &e, o.now), &o.show(), &p, &format!("future-mtime:{}", o.status));
                        }
                    }
                }
            }
        }
    }
    // random tag lists (up to 8 tags, random opaque bytes, OWS) and the malformed stream
    let mut rng = Rng::new(seed ^ 0xC04);
    let n = if thorough { 300_000 } else { 10_000 };
    for _ in 0..n {
        let pool: [&[u8]; 6] = [b"a, b", b"x", b"", b"W/", b"a,\tb", b"\xe9t\xe9"];
        let rtag = |rng: &mut Rng| Tag {
            weak: rng.chance(1, 3),
            opaque: rng.pick(&pool).to_vec(),
        };
        let rhdr = |rng: &mut Rng| match rng.below(6) {
            0 => TagHdr::Absent,
            1 => TagHdr::Star,
            _ => {
                let k = 1 + rng.usize(8);
                TagHdr::List(
                    (0..k)
                        .map(|_| (rtag(rng), rng.pick(&OWS_CHOICES).to_vec()))
                        .collect(),
                )
            }
        };
        let et = if rng.chance(1, 5) { None } else { Some(rtag(&mut rng)) };
        let mt = *rng.pick(&mtimes);
        let im = rhdr(&mut rng);
        let inm = rhdr(&mut rng);
        let ius = *rng.pick(&dates);
        let ims = *rng.pick(&dates);
        let mut e = HEntity::new(10);
        e.etag = et.as_ref().map(|t| t.render());
        e.mtime = mt.map(|(s, n)| UNIX_EPOCH + Duration::new(s, n));
        let mut q = HReq::get();
        q.if_match = im.render();
        q.if_none_match = inm.render();
        q.ius = ius.map_or(DateH::Absent, DateH::Secs);
        q.ims = ims.map_or(DateH::Absent, DateH::Secs);
        let o = observe_serve(&q, &e);
        let p = c04_pred(et.as_ref(), mt.map(|m| m.0), &im, &inm, ius, ims, &o);
        em.case(
            &serve_line(&q, &e, o.now),
            &o.show(),
            &p,
            &format!("rand:{}", o.status),
        );
    }
}

// ---------------------------------------------------------------------------------------
// C05

pub fn c05(em: &mut Emit, thorough: bool, seed: u64) {
    let mut rng = Rng::new(seed ^ 0xC05);
    let opaque: &[u8] = b"v1";
    // (the last two: entities whose own tag is one of the If-Range values with a word spliced in)
    let etags: [Option<Tag>; 6] =
        [None, Some(strong(opaque)), Some(weak(opaque)), Some(strong(b"v1-gzip")), Some(strong(b"W/v1")), Some(strong(b"v\xe91"))];
    let ranges: [&[u8]; 5] = [
        b"bytes=1-2",
        b"bytes=5-",
        b"bytes=0-1,5-6",
        b"bytes=2000-",
        b"bytes=-3, 10-19, 20-29",
    ];
    let lm = T0;
    let mut if_ranges: Vec<(String, Option<Vec<u8>>)> = vec![
        ("absent".into(), None),
        ("same-strong".into(), Some(strong(opaque).render())),
        ("same-weak".into(), Some(weak(opaque).render())),
        ("different".into(), Some(strong(b"v2").render())),
        ("prefix".into(), Some(b"\"v1".to_vec())),
        ("prefix2".into(), Some(b"\"v".to_vec())),
        ("extended".into(), Some(b"\"v1\" ".to_vec())),
        ("extended2".into(), Some(b"\"v1\"x".to_vec())),
        ("case".into(), Some(b"\"V1\"".to_vec())),
        ("lower-w".into(), Some(b"w/\"v1\"".to_vec())),
        ("unquoted".into(), Some(b"v1".to_vec())),
        ("star".into(), Some(b"*".to_vec())),
        ("empty".into(), Some(b"".to_vec())),
        // If-Range takes ONE validator: a list is not one, wherever the current tag sits in it
        ("list-first".into(), Some(b"\"v1\", \"v2\"".to_vec())),
        ("list-last".into(), Some(b"\"v2\", \"v1\"".to_vec())),
        ("list-weak-then-strong".into(), Some(b"W/\"v1\", \"v1\"".to_vec())),
        ("list-twice".into(), Some(b"\"v1\",\"v1\"".to_vec())),
        ("list-trailing-comma".into(), Some(b"\"v1\",".to_vec())),
        ("list-leading-comma".into(), Some(b",\"v1\"".to_vec())),
        ("list-star".into(), Some(b"*, \"v1\"".to_vec())),
        // obs-text (bytes >= 0x80 are legal in an entity-tag): another tag that is not ASCII
        // either, and the same one
        ("obs-other".into(), Some(b"\"v\xe92\"".to_vec())),
        ("obs-same".into(), Some(b"\"v\xe91\"".to_vec())),
    ];
    // the matching validator with a protocol word spliced in before the closing quote or after
    // the opening one (what a compressing proxy, a cache or a sloppy client might send)
    for w in PROTOCOL_WORDS {
        let mut v = b"\"v1".to_vec();
        v.extend_from_slice(w);
        v.push(b'"');
        if_ranges.push(("spliced".into(), Some(v)));
        let mut v = b"\"".to_vec();
        v.extend_from_slice(w);
        v.extend_from_slice(b"v1\"");
        if_ranges.push(("spliced".into(), Some(v)));
    }
    // near-misses of the matching validator
    for i in 0..(if thorough { 400 } else { 40 }) {
        let v = mutate_bytes(&mut rng, &strong(opaque).render());
        if v != strong(opaque).render() {
            if_ranges.push((format!("mut{}", i % 4), Some(v)));
        }
    }
    for (n, d) in [("date-before", lm - 1), ("date-equal", lm), ("date-after", lm + 1)] {
        if_ranges.push((
            n.into(),
            Some(httpdate::fmt_http_date(UNIX_EPOCH + Duration::from_secs(d)).into_bytes()),
        ));
    }
    let n_rand = if thorough { 2000 } else { 60 };
    for i in 0..n_rand {
        if_ranges.push((format!("rand{}", i % 4), Some(random_header_bytes(&mut rng, 8))));
    }
    let mut line_no = 0usize;
    for et in &etags {
        for (name, ir) in &if_ranges {
            for r in &ranges {
                for method in ["GET", "HEAD"] {
                    let mut e = HEntity::new(1000);
                    e.etag = et.as_ref().map(|t| t.render());
                    e.mtime = Some(UNIX_EPOCH + Duration::from_secs(lm));
                    e.headers = vec![("x-ent-a".into(), b"1".to_vec())];
                    let mut q = HReq::get();
                    q.method = method.into();
                    q.range = Some(r.to_vec());
                    q.if_range = ir.clone();
                    // further If-Range header LINES after the first (which alone counts): the
                    // entity's current tag after a stale one, a stale one after the current
                    line_no += 1;
                    if ir.is_some() {
                        match (line_no % 3, &e.etag) {
                            (1, Some(t)) => q.repeats.push(("if-range".into(), t.clone())),
                            (2, _) => q.repeats.push(("if-range".into(), b"\"some-other-version\"".to_vec())),
                            _ => {}
                        }
                    }
                    // preconditions that PASS, next to If-Range (round 15, M-C05-13: a passing
                    // If-Match taken as proof that the If-Range tag is current): they must not
                    // change what If-Range decides; the reference request below keeps them
                    match line_no % 7 {
                        1 => q.if_match = Some(b"*".to_vec()),
                        2 => {
                            if let Some(t) = &e.etag {
                                if !t.starts_with(b"W/") {
                                    let mut l = b"\"stale\", ".to_vec();
                                    l.extend_from_slice(t);
                                    q.if_match = Some(l);
                                }
                            }
                        }
                        3 => q.if_none_match = Some(b"\"zzz-unrelated\"".to_vec()),
                        4 => q.ius = DateH::Secs(lm + 10),
                        5 => q.ims = DateH::Secs(lm - 10),
                        6 => {
                            q.if_match = Some(b"*".to_vec());
                            q.ius = DateH::Secs(lm);
                            q.if_none_match = Some(b"W/\"zzz-unrelated\"".to_vec());
                        }
                        _ => {}
                    }
                    let o = observe_serve(&q, &e);
                    let identical_strong = match (&ir, &e.etag) {
                        (Some(v), Some(t)) => v == t && !t.starts_with(b"W/"),
                        _ => false,
                    };
                    let partial = o.status == 206 || o.status == 416;
                    let mut ok = !o.panicked;
                    let mut why = String::new();
                    if ir.is_some() && !identical_strong {
                        // complete 200 without Content-Range, with the entity's headers
                        if !(o.status == 200
                            && o.header("content-range").is_none()
                            && o.header("x-ent-a").is_some())
                        {
                            ok = false;
                            why = format!("If-Range {} must give a complete 200", name);
                        }
                    } else {
                        // Range still honoured: same as without If-Range
                        let mut q2 = q.clone();
                        q2.if_range = None;
                        q2.repeats.clear();
                        let o2 = observe_serve(&q2, &e);
                        if o.status != o2.status
                            || o.header("content-range") != o2.header("content-range")
                        {
                            ok = false;
                            why = "Range not honoured as without If-Range".into();
                        }
                        if !partial && o.status != 200 {
                            ok = false;
                            why = format!("unexpected status {}", o.status);
                        }
                    }
                    let p = pred(ok, || format!("{}: {}", why, o.show()));
                    em.case(
                        &serve_line(&q, &e, o.now),
                        &o.show(),
                        &p,
                        &format!(
                            "{}:{}:{}",
                            if name.starts_with("rand") { "rand" } else if name.starts_with("mut") { "mut" } else { name },
                            match et {
                                None => "noetag",
                                Some(t) if t.weak => "weak",
                                _ => "strong",
                            },
                            status_class(&o)
                        ),
                    );
                }
            }
        }
    }
}

// ---------------------------------------------------------------------------------------
// C13

pub fn c13(em: &mut Emit, thorough: bool, seed: u64) {
    let mut rng = Rng::new(seed ^ 0xC13);
    // multipart bodies whose exact length is around 2^64 (the checked arithmetic / 413 path)
    crate::suites_body::c06_huge(em, &mut rng, if thorough { 10_000 } else { 800 });
    // modification times before the Unix epoch (files can carry them)
    for (what, back) in [("1 ns", Duration::new(0, 1)), ("half a second", Duration::new(0, 500_000_000)),
                         ("one second", Duration::new(1, 0)), ("ten years", Duration::new(315_576_000, 7))] {
        for method in ["GET", "HEAD"] {
            for cond in [None, Some("if-modified-since"), Some("if-unmodified-since"), Some("if-range")] {
                let mut e = HEntity::new(10);
                e.mtime = Some(UNIX_EPOCH - back);
                let mut q = HReq::get();
                q.method = method.to_string();
                match cond {
                    Some("if-modified-since") => q.ims = DateH::Secs(0),
                    Some("if-unmodified-since") => q.ius = DateH::Secs(0),
                    Some(_) => {
                        q.if_range = Some(b"Thu, 01 Jan 1970 00:00:00 GMT".to_vec());
                        q.range = Some(b"bytes=0-1".to_vec());
                    }
                    None => {}
                }
                e.etag = if back.as_secs() == 1 { Some(strong(b"x").render()) } else { None };
                let o = observe_serve(&q, &e);
                // served exactly like an entity without a modification time
                let p = pred(
                    !o.panicked
                        && [200, 206].contains(&o.status)
                        && !o.headers.iter().any(|(n, _)| n == "last-modified" || n == "date"),
                    || format!("panicked={} status={} headers={:?}", o.panicked, o.status, o.headers),
                );
                em.case(&serve_line(&q, &e, o.now), &o.show(), &p, "pre-epoch-mtime");
            }
        }
    }
    // modification times far in the future (a corrupt or odd file system can carry them): beyond
    // what an HTTP-date can express (year 10000 and later) and near the end of `SystemTime`'s range
    for secs in [253_402_300_799u64, 253_402_300_800, 253_402_300_801, 1 << 40, 1 << 55, (i64::MAX as u64) - 1] {
        let Some(mt) = UNIX_EPOCH.checked_add(Duration::new(secs, 5)) else { continue };
        for method in ["GET", "HEAD"] {
            for cond in 0..5 {
                let mut e = HEntity::new(10);
                e.mtime = Some(mt);
                e.etag = if cond == 4 { Some(strong(b"x").render()) } else { None };
                let mut q = HReq::get();
                q.method = method.to_string();
                match cond {
                    1 => q.ims = DateH::Secs(T0),
                    2 => q.ius = DateH::Secs(T0),
                    3 => {
                        q.if_range = Some(b"Fri, 31 Dec 9999 23:59:59 GMT".to_vec());
                        q.range = Some(b"bytes=0-1".to_vec());
                    }
                    4 => {
                        q.ims = DateH::Bad(b"not a date".to_vec());
                        q.if_none_match = Some(b"\"y\"".to_vec());
                    }
                    _ => {}
                }
                let o = observe_serve(&q, &e);
                let p = pred(!o.panicked && [200, 206, 304, 400, 412].contains(&o.status), || {
                    format!("panicked={} status={}", o.panicked, o.status)
                });
                em.case(&serve_line(&q, &e, o.now), &o.show(), &p, "far-future-mtime");
            }
        }
    }
    // malformed validators: not well-formed, so only model agreement and no panic
    let n = if thorough { 50_000 } else { 3_000 };
    for _ in 0..n {
        let mut e = HEntity::new(10);
        e.etag = Some(strong(b"x").render());
        e.mtime = Some(UNIX_EPOCH + Duration::new(T0, 0));
        let mut q = HReq::get();
        let bad = |rng: &mut Rng| -> Vec<u8> {
            const FIXED: [&[u8]; 12] = [
                b"\"x\" ,\"y\"",
                b"\"x\"\"y\"",
                b"\"x",
                b"x",
                b"W/x",
                b"w/\"x\"",
                b"\"x\",",
                b",\"x\"",
                b"\"x\", ",
                b"* ",
                b"\"x\" \"y\"",
                b"",
            ];
            match rng.below(4) {
                0 => rng.pick(&FIXED).to_vec(),
                1 | 2 => malformed_tags(rng),
                _ => random_header_bytes(rng, 10),
            }
        };
        if rng.chance(1, 2) {
            q.if_match = Some(bad(&mut rng));
        }
        if rng.chance(1, 2) {
            q.if_none_match = Some(bad(&mut rng));
        }
        if rng.chance(1, 3) {
            q.ius = classify_date(&random_header_bytes(&mut rng, 8));
        }
        if rng.chance(1, 3) {
            q.ims = classify_date(b"Sun, 06 Nov 1994 08:49:37 GMX");
        }
        let o = observe_serve(&q, &e);
        let p = pred(!o.panicked, || "serve panicked".into());
        em.case(
            &serve_line(&q, &e, o.now),
            &o.show(),
            &p,
            &format!("G:malcond:{}", o.status),
        );
    }
    // corpus
    {
        let mut q = HReq::get();
        q.range = Some(b"bytes=0-18446744073709551615".to_vec());
        let e = HEntity::new(10);
        let o = observe_serve(&q, &e);
        em.case(
            &serve_line(&q, &e, o.now),
            &o.show(),
            &pred(!o.panicked, || "serve panicked".into()),
            "corpus",
        );
    }
    let methods = [
        "GET", "HEAD", "POST", "PUT", "DELETE", "OPTIONS", "PATCH", "TRACE", "CONNECT", "get",
        "PROPFIND", "X-CUSTOM", "G",
    ];
    let lens = [0u64, 1, 7, 240, 1 << 32, 1 << 63, u64::MAX];
    let n = if thorough { 1_000_000 } else { 40_000 };
    for i in 0..n {
        let mut q = HReq::get();
        q.method = if rng.chance(3, 4) {
            (*rng.pick(&["GET", "HEAD"])).into()
        } else {
            (*rng.pick(&methods)).into()
        };
        let len = *rng.pick(&lens);
        let mut e = HEntity::new(len);
        if rng.chance(2, 3) {
            e.etag = Some(match rng.below(4) {
                0 => b"\"x\"".to_vec(),
                1 => b"W/\"x\"".to_vec(),
                2 => b"x".to_vec(),
                _ => b"\"a, b\"".to_vec(),
            });
        }
        if rng.chance(2, 3) {
            e.mtime = Some(
                UNIX_EPOCH
                    + Duration::new(
                        *rng.pick(&[0, T0, 4_102_444_800, 253_402_300_799]),
                        *rng.pick(&[0, 1, 999_999_999]),
                    ),
            );
        }
        if rng.chance(1, 3) {
            e.headers = vec![("x-ent-a".into(), random_header_bytes(&mut rng, 6))];
        } else if rng.chance(1, 6) {
            // the shortest header lines there are: a one-letter name, an empty value
            e.headers = vec![("a".into(), vec![]), ("b".into(), b"1".to_vec())];
        }
        let field = |rng: &mut Rng, kind: u8| -> Option<Vec<u8>> {
            match rng.below(5) {
                0 => None,
                1 => Some(random_header_bytes(rng, 14)),
                2 => Some(malformed_range(rng)),
                3 => Some(match kind {
                    0 => render_specs(&[random_rendered(rng, len), random_rendered(rng, len)]),
                    1 if rng.chance(1, 2) => malformed_tags(rng),
                    1 => b"\"x\", W/\"y\"".to_vec(),
                    _ if rng.chance(1, 3) => malformed_tags(rng),
                    _ => b"\"x\"".to_vec(),
                }),
                _ => Some(b"*".to_vec()),
            }
        };
        q.range = field(&mut rng, 0);
        q.if_range = field(&mut rng, 2);
        q.if_match = field(&mut rng, 1);
        q.if_none_match = field(&mut rng, 1);
        let date = |rng: &mut Rng| match rng.below(4) {
            0 => DateH::Absent,
            1 => DateH::Secs(*rng.pick(&[0, T0 - 1, T0, T0 + 1, 253_402_300_799])),
            _ => classify_date(&random_header_bytes(rng, 30)),
        };
        q.ius = date(&mut rng);
        q.ims = date(&mut rng);
        if rng.chance(1, 5) {
            // repeated header lines: the first value counts
            q.repeats = vec![
                ("range".into(), b"bytes=0-0".to_vec()),
                ("if-match".into(), b"\"zzz\"".to_vec()),
            ];
            if q.range.is_none() || q.if_match.is_none() {
                q.repeats.clear();
            }
        }
        let o = observe_serve(&q, &e);
        let mut ok = !o.panicked
            && [200u16, 206, 304, 400, 405, 412, 413, 416].contains(&o.status);
        let mut why = format!("panic or status {}", o.status);
        if ok && q.m_field() == "O" {
            let allow = o.header("allow").map(|v| v.to_ascii_lowercase());
            let good = o.status == 405
                && allow.map_or(false, |a| {
                    let s = String::from_utf8_lossy(&a).to_string();
                    s.contains("get") && s.contains("head")
                })
                && o.calls.is_empty();
            if !good {
                ok = false;
                why = format!("non-GET/HEAD must give 405 + Allow, no entity access: {}", o.show());
            }
        }
        // draining must not panic either (small bodies only; scripts honest)
        if ok && i % 4 == 0 && q.m_field() == "G" {
            if let Some((recs, _)) = run_body(&q, &e, &[], 8) {
                if recs.iter().any(|r| r.out == Out::Panic) {
                    ok = false;
                    why = "panic while draining".into();
                }
            }
        }
        em.case(
            &serve_line(&q, &e, o.now),
            &o.show(),
            &pred(ok, || why.clone()),
            &format!("{}:{}", q.m_field(), status_class(&o)),
        );
    }
}

// ---------------------------------------------------------------------------------------
// C14

pub fn c14(em: &mut Emit, thorough: bool, seed: u64) {
    let now = std::time::SystemTime::now()
        .duration_since(UNIX_EPOCH)
        .unwrap()
        .as_secs();
    // (the last two: tags that end like the markers compressing proxies splice into tags)
    let mut etags: Vec<Option<&[u8]>> =
        vec![None, Some(b"\"s1\""), Some(b"W/\"w1\""), Some(b"\"s1-gzip\""), Some(b"W/\"w1-br\"")];
    if thorough {
        // tags with list punctuation inside, empty opaque part, obs-text
        etags.extend([Some(&b"\"a, b\""[..]), Some(&b"\"\""[..]), Some(&b"W/\"\xe9, \xe9\""[..])]);
    }
    // `this-second` is resolved per case to 1 ns into the current wall-clock second: in the past,
    // but in the same second as the request
    let mut mtimes: Vec<(&str, Option<(u64, u32)>)> = vec![
        ("this-second", Some((u64::MAX, 1))),
        // resolved per case to that much AHEAD of the wall clock: less than a second in the
        // future, which for some of them is already the next second
        ("lead-300ms", Some((u64::MAX - 1, 300_000_000))),
        ("lead-600ms", Some((u64::MAX - 1, 600_000_000))),
        ("lead-900ms", Some((u64::MAX - 1, 900_000_000))),
        ("lead-1s-less-1ns", Some((u64::MAX - 1, 999_999_999))),
        ("absent", None),
        ("epoch", Some((0, 0))),
        ("whole", Some((T0, 0))),
        ("milli", Some((T0, 1_000_000))),
        ("nano", Some((T0, 1))),
        ("1ns-before", Some((T0, 999_999_999))),
        ("future", Some((now + 86_400, 250_000_000))),
    ];
    if thorough {
        let mut rng = Rng::new(seed ^ 0xC14);
        for _ in 0..8 {
            // anywhere between 1970 and now, any sub-second part; a minute ago; a second in the future
            mtimes.push(("random", Some((rng.below(now), rng.below(1_000_000_000) as u32))));
        }
        mtimes.push(("a-minute-ago", Some((now - 60, 999_999_999))));
        mtimes.push(("soon", Some((now + 2, 1))));
    }
    let header_sets: [Vec<(String, Vec<u8>)>; 3] = [
        vec![],
        vec![("x-ent-a".into(), b"1".to_vec())],
        vec![
            ("x-ent-a".into(), b"1".to_vec()),
            ("content-language".into(), b"en".to_vec()),
            ("x-ent-a".into(), b"2".to_vec()),
            // what practically every real entity supplies
            ("content-type".into(), b"text/plain; charset=utf-8".to_vec()),
            // obs-text (not UTF-8)
            ("content-disposition".into(), b"attachment; filename=\"caf\xe9 \xff.txt\"".to_vec()),
        ],
    ];
    // (name, Range, method, entity length, send the entity's own ETag in If-Range)
    let firsts: [(&str, Option<&[u8]>, &str, u64, bool); 10] = [
        ("plain", None, "GET", 10, false),
        ("range", Some(b"bytes=1-2"), "GET", 10, false),
        ("unsat", Some(b"bytes=99-"), "GET", 10, false),
        ("multi", Some(b"bytes=0-0,2-2"), "HEAD", 1000, false),
        ("multi-get", Some(b"bytes=0-0,2-2"), "GET", 1000, false),
        ("range-ir", Some(b"bytes=1-2"), "GET", 10, true),
        ("unsat-ir", Some(b"bytes=99-"), "HEAD", 10, true),
        ("multi-ir", Some(b"bytes=0-0,2-2"), "GET", 1000, true),
        ("costly", Some(b"bytes=0-9, 100-119"), "GET", 140, false),
        ("costly-ir", Some(b"bytes=0-9, 100-119"), "GET", 140, true),
    ];
    for et in &etags {
        for (mname, mt) in &mtimes {
            for hs in &header_sets {
                for (fname, frange, fmethod, flen, fir) in &firsts {
                    let len = *flen;
                    let mut e = HEntity::new(len);
                    e.etag = et.map(|t| t.to_vec());
                    let mt = &mt.map(|(s, n)| {
                        if s == u64::MAX {
                            let d = std::time::SystemTime::now().duration_since(UNIX_EPOCH).unwrap();
                            (d.as_secs(), n.min(d.subsec_nanos()))
                        } else if s == u64::MAX - 1 {
                            let d = std::time::SystemTime::now().duration_since(UNIX_EPOCH).unwrap() + Duration::from_nanos(n as u64);
                            (d.as_secs(), d.subsec_nanos())
                        } else {
                            (s, n)
                        }
                    });
                    e.mtime = mt.map(|(s, n)| UNIX_EPOCH + Duration::new(s, n));
                    e.headers = hs.clone();
                    let mut q1 = HReq::get();
                    q1.method = (*fmethod).into();
                    q1.range = frange.map(|r| r.to_vec());
                    if *fir {
                        match et {
                            Some(t) => q1.if_range = Some(t.to_vec()),
                            None => continue,
                        }
                    }
                    let o1 = observe_serve(&q1, &e);
                    // --- header clauses on the first response
                    let mut ok = !o1.panicked;
                    let mut why = String::new();
                    let mut fail = |w: String| {
                        if ok {
                            ok = false;
                            why = w;
                        }
                    };
                    if o1.header("accept-ranges") != Some(b"bytes") {
                        fail("Accept-Ranges: bytes missing".into());
                    }
                    if o1.header("etag") != e.etag.as_deref() {
                        fail("ETag not the entity's".into());
                    }
                    let future = mt.map_or(false, |m| m.0 > o1.now);
                    if let Some((ms, _)) = mt {
                        let d = o1.date_secs("date");
                        let lm = o1.date_secs("last-modified");
                        match (d, lm) {
                            (Some(d), Some(lm)) => {
                                if lm > d {
                                    fail("Last-Modified exceeds Date".into());
                                }
                                if !o1.clock_ok {
                                    fail("Date is not the current time".into());
                                }
                                if *ms <= d && lm != *ms {
                                    fail("Last-Modified is not the truncated mtime".into());
                                }
                            }
                            _ => fail("Date/Last-Modified missing".into()),
                        }
                    }
                    // 200: all of them; single-range 206: all of them iff the request had no
                    // If-Range; multipart 206: none at top level; 304/412/416: none
                    let multipart = matches!(o1.status, 206) && o1.header("content-range").is_none();
                    let want_ent = o1.status == 200 || (o1.status == 206 && !multipart && q1.if_range.is_none());
                    let forbid_ent = matches!(o1.status, 304 | 412 | 416) || multipart;
                    for (k, v) in hs {
                        let has = o1.header_all(k).iter().any(|x| x == v);
                        if want_ent && !has {
                            fail(format!("entity header {} missing on {}", k, o1.status));
                        }
                        if forbid_ent && has {
                            fail(format!("entity header {} present on {}", k, o1.status));
                        }
                    }
                    // ... and no header of ANOTHER entity: a header line under a name that entities
                    // of this harness supply (this one, the ones served before it on this thread)
                    // must be one this entity supplied for this response, as often as it supplied
                    // it. (A header `serve` might one day add to every response on its own
                    // account is none of C14's business and is not flagged here.)
                    {
                        const ENTITY_HEADER_NAMES: [&str; 14] = [
                            "x-ent-a", "x-ent-b", "content-language", "content-type", "content-disposition",
                            "x-other-entity", "content-encoding", "vary", "set-cookie", "x-long", "a", "b",
                            "x-account", "cache-control",
                        ];
                        let mut own = vec!["accept-ranges", "etag", "date", "last-modified", "content-range", "content-length"];
                        if multipart {
                            own.push("content-type");
                        }
                        let mut supplied: Vec<&(String, Vec<u8>)> = if want_ent { hs.iter().collect() } else { vec![] };
                        for (n, v) in &o1.raw_headers {
                            if own.contains(&n.as_str()) {
                                continue;
                            }
                            match supplied.iter().position(|(k, w)| k == n && w == v) {
                                Some(i) => {
                                    supplied.remove(i);
                                }
                                None if ENTITY_HEADER_NAMES.contains(&n.as_str()) || hs.iter().any(|(k, _)| k == n) => {
                                    fail(format!("header line {}: {} is not one this entity supplies", n, hex(v)))
                                }
                                None => {}
                            }
                        }
                    }
                    if let (Plan::Multipart(phs, ..), None) = (&o1.plan, &q1.if_range) {
                        for (k, v) in hs {
                            let needle = [k.as_bytes(), b": ", &v[..], b"\r\n"].concat();
                            for ph in phs {
                                if !ph.windows(needle.len()).any(|w| w == &needle[..]) {
                                    fail(format!("entity header {} missing inside a part", k));
                                }
                            }
                        }
                    }
                    em.case(
                        &serve_line(&q1, &e, o1.now),
                        &o1.show(),
                        &pred(ok, || format!("{}: {}", why, o1.show())),
                        &format!("first:{}:{}:{}", mname, fname, o1.status),
                    );
                    if o1.panicked {
                        continue;
                    }
                    // --- second request: echo every subset of the served validators
                    let served_etag = o1.header("etag").map(|v| v.to_vec());
                    let served_lm = o1.date_secs("last-modified");
                    let strong_served = served_etag
                        .as_ref()
                        .map_or(false, |t| !t.starts_with(b"W/"));
                    for subset in 1u32..32 {
                        let (inm, ims, im, ius, ir) = (
                            subset & 1 != 0,
                            subset & 2 != 0,
                            subset & 4 != 0,
                            subset & 8 != 0,
                            subset & 16 != 0,
                        );
                        if (inm || im || ir) && served_etag.is_none() {
                            continue;
                        }
                        if (ims || ius) && served_lm.is_none() {
                            continue;
                        }
                        if ir && !strong_served {
                            continue;
                        }
                        for method in ["GET", "HEAD"] {
                            let mut q2 = HReq::get();
                            q2.method = method.into();
                            if inm {
                                q2.if_none_match = served_etag.clone();
                            }
                            if ims {
                                q2.ims = DateH::Secs(served_lm.unwrap());
                            }
                            if im {
                                q2.if_match = served_etag.clone();
                            }
                            if ius {
                                q2.ius = DateH::Secs(served_lm.unwrap());
                            }
                            if ir {
                                q2.if_range = served_etag.clone();
                                q2.range = Some(b"bytes=1-2".to_vec());
                            }
                            let o2 = observe_serve(&q2, &e);
                            let mut ok = !o2.panicked;
                            let mut why = String::new();
                            // never 412 when the echoed tag is strong or only dates are echoed
                            let precond_should_pass = !im || strong_served;
                            let want_304 = inm || ims;
                            let mut known = false;
                            if precond_should_pass && o2.status == 412 {
                                ok = false;
                                why = "echoed validators gave 412".into();
                                if future && ius && !im {
                                    known = true;
                                }
                            } else if precond_should_pass && want_304 && o2.status != 304 {
                                ok = false;
                                why = format!("echoed validators gave {} not 304", o2.status);
                                if future && ims && !inm {
                                    known = true;
                                }
                            } else if precond_should_pass && !want_304 && ir {
                                if !(o2.status == 206
                                    && o2.header("content-range")
                                        == Some(format!("bytes 1-2/{}", len).as_bytes()))
                                {
                                    ok = false;
                                    why = "If-Range with the served strong ETag not honoured".into();
                                }
                            }
                            let p = if known {
                                em.known(
                                    "K1",
                                    "future mtime: echoed If-Modified-Since -> 200 / If-Unmodified-Since -> 412",
                                );
                                "ok".to_string()
                            } else {
                                pred(ok, || format!("{}: {}", why, o2.show()))
                            };
                            em.case(
                                &serve_line(&q2, &e, o2.now),
                                &o2.show(),
                                &p,
                                &format!("echo:{}:{}:{}", mname, subset, o2.status),
                            );
                        }
                    }
                }
            }
        }
    }
}

/// C14 across a tick of the wall clock: an entity whose modification time lies a second ahead
/// (clock skew) is served, the clock passes that time, and the SAME entity is served again on the
/// same thread with nothing in between. The second response is an ordinary one — the time is in
/// the past now — so `Last-Modified` must be the modification time truncated to the second, and
/// echoing it must give 304. (Whatever was worked out for the first response, when the time was
/// still ahead, must not be served again.)
pub fn c14_clock_crossing(em: &mut Emit) {
    HISTORY_QUIET.store(true, std::sync::atomic::Ordering::SeqCst);
    for (etag, len) in [(Some(&b"\"s1\""[..]), 10u64), (None, 1000)] {
        let now = std::time::SystemTime::now().duration_since(UNIX_EPOCH).unwrap();
        // 300 ms into the second after next: between 1.3 and 2.3 s ahead
        let m_secs = now.as_secs() + 2;
        let m = UNIX_EPOCH + Duration::new(m_secs, 300_000_000);
        let mut e = HEntity::new(len);
        e.etag = etag.map(|t| t.to_vec());
        e.mtime = Some(m);
        let q = HReq::get();
        let first = observe_serve(&q, &e);
        // a few more while the time is still ahead
        let _ = observe_serve(&q, &e);
        while std::time::SystemTime::now() < m + Duration::from_millis(50) {
            heartbeat(|| "waiting for the wall clock to pass a modification time".into());
            std::thread::sleep(Duration::from_millis(50));
        }
        let second = observe_serve(&q, &e);
        let want = httpdate::fmt_http_date(UNIX_EPOCH + Duration::from_secs(m_secs));
        let got = second.raw_headers.iter().find(|(n, _)| n == "last-modified").map(|(_, v)| String::from_utf8_lossy(v).to_string());
        let p = pred(!second.panicked && got.as_deref() == Some(want.as_str()), || {
            format!(
                "entity modified at {} (+0.3 s), served before that time (Last-Modified {:?}) and again after it: Last-Modified {:?}, expected {}",
                m_secs,
                first.raw_headers.iter().find(|(n, _)| n == "last-modified").map(|(_, v)| String::from_utf8_lossy(v).to_string()),
                got,
                want
            )
        });
        em.case(&serve_line(&q, &e, second.now), &second.show(), &p, "clock-crossing");
        // echo what the second response said
        let mut q2 = HReq::get();
        q2.ims = got.as_deref().map(|g| classify_date(g.as_bytes())).unwrap_or(DateH::Absent);
        let third = observe_serve(&q2, &e);
        let p = pred(third.status == 304, || format!("If-Modified-Since echoing the Last-Modified served after the clock passed it: {} not 304", third.status));
        em.case(&serve_line(&q2, &e, third.now), &third.show(), &p, "clock-crossing-echo");
    }
    HISTORY_QUIET.store(false, std::sync::atomic::Ordering::SeqCst);
}

// ---------------------------------------------------------------------------------------
// C15 (serve part; the streaming_body part is in suites_neg)

/// Header lines an entity's `add_headers` might supply under names `serve` uses itself.
pub const COLLIDING_ENTITY_HEADERS: [(&str, &[u8]); 10] = [
    ("content-length", b"240"),
    ("content-length", b"7"),
    ("content-range", b"bytes 0-0/1"),
    ("etag", b"\"other\""),
    ("date", b"Thu, 01 Jan 1970 00:00:00 GMT"),
    ("last-modified", b"Thu, 01 Jan 1970 00:00:00 GMT"),
    ("vary", b"accept-encoding"),
    ("accept-ranges", b"none"),
    ("content-encoding", b"gzip"),
    ("content-type", b"multipart/byteranges; boundary=X"),
];

pub fn c15_requests(rng: &mut Rng, n: usize) -> Vec<(HReq, HEntity)> {
    let mut v = vec![];
    let ranges: [Option<&[u8]>; 9] = [
        None,
        Some(b"bytes=1-2"),
        Some(b"bytes=0-"),
        Some(b"bytes=-1"),
        Some(b"bytes=5000-"),
        Some(b"bytes=0-1,10-11"),
        Some(b"bytes=0-1, 10-11, 500-"),
        Some(b"bytes=oops"),
        Some(b"bytes=0-0,18446744073709551615-"),
    ];
    for _ in 0..n {
        let len = *rng.pick(&[0u64, 1, 240, 1000, u64::MAX]);
        let mut e = HEntity::new(len);
        if rng.chance(3, 4) {
            e.etag = Some(if rng.chance(1, 2) {
                b"\"s\"".to_vec()
            } else {
                b"W/\"s\"".to_vec()
            });
        }
        if rng.chance(3, 4) {
            e.mtime = Some(UNIX_EPOCH + Duration::new(T0, *rng.pick(&[0, 500])));
        }
        if rng.chance(1, 2) {
            e.headers = vec![("x-ent-a".into(), b"v".to_vec())];
        }
        // an entity that supplies a header line under a name `serve` sets itself (appended, as
        // every header of the harness entity is): both requests must carry both lines
        if rng.chance(1, 4) {
            for _ in 0..1 + rng.usize(2) {
                let (n, v) = *rng.pick(&COLLIDING_ENTITY_HEADERS);
                e.headers.push((n.into(), v.to_vec()));
            }
        }
        let mut q = HReq::get();
        q.range = rng.pick(&ranges).map(|r| r.to_vec());
        if rng.chance(1, 4) {
            q.if_range = Some(rng.pick(&[&b"\"s\""[..], b"W/\"s\"", b"\"t\""]).to_vec());
        }
        if rng.chance(1, 4) {
            q.if_match = Some(rng.pick(&[&b"\"s\""[..], b"*", b"\"t\"", b"bad"]).to_vec());
        }
        if rng.chance(1, 4) {
            q.if_none_match = Some(rng.pick(&[&b"\"s\""[..], b"*", b"\"t\""]).to_vec());
        }
        if rng.chance(1, 4) {
            q.ims = DateH::Secs(*rng.pick(&[T0 - 1, T0, T0 + 1]));
        }
        if rng.chance(1, 4) {
            q.ius = rng.pick(&[DateH::Secs(T0 - 1), DateH::Secs(T0), DateH::Bad(b"x".to_vec())]).clone();
        }
        if rng.chance(1, 10) {
            q.method = "POST".into();
        }
        v.push((q, e));
    }
    // positions and lengths just below, at and above powers of ten (digit counts of the numbers
    // printed into part headers), up to 20 digits
    {
        let mut p10 = 1000u64;
        loop {
            for len in [p10.saturating_mul(2), u64::MAX] {
                for d in [1u64, 2] {
                    if p10 - d + 3 >= len {
                        continue;
                    }
                    let mut e = HEntity::new(len);
                    e.headers = vec![("x-ent-a".into(), b"v".to_vec())];
                    let mut q = HReq::get();
                    q.range = Some(format!("bytes=5-6, {}-{}, {}-{}", p10 - d, p10 - d + 1, p10, p10 + 1).into_bytes());
                    v.push((q, e));
                }
            }
            p10 = match p10.checked_mul(10) {
                Some(x) => x,
                None => break,
            };
        }
    }
    // many ranges in one request (tiny parts of a large entity: still a multipart response)
    for k in [16usize, 17, 63, 64, 65, 66, 100, 128, 129, 255, 256, 257, 1000] {
        for len in [100_000u64, 1 << 40] {
            let mut e = HEntity::new(len);
            e.etag = Some(b"\"s\"".to_vec());
            e.headers = vec![("x-ent-a".into(), b"v".to_vec())];
            let mut q = HReq::get();
            q.range = Some(many_ranges(k, len));
            v.push((q, e));
        }
    }
    v
}

/// `k` satisfiable two-byte ranges spread over an entity of `len` bytes, not in ascending order.
pub fn many_ranges(k: usize, len: u64) -> Vec<u8> {
    let step = (len / (k as u64 + 1)).max(3);
    let mut specs: Vec<String> = (0..k as u64)
        .map(|i| {
            let a = (i * step) % (len - 2);
            format!("{}-{}", a, a + 1)
        })
        .collect();
    specs.swap(0, k - 1);
    format!("bytes={}", specs.join(", ")).into_bytes()
}

pub fn c15(em: &mut Emit, thorough: bool, seed: u64) {
    let mut rng = Rng::new(seed ^ 0xC15);
    let n = if thorough { 200_000 } else { 8_000 };
    for (q, e) in c15_requests(&mut rng, n) {
        let mut qh = q.clone();
        if q.method == "GET" {
            qh.method = "HEAD".into();
        }
        let og = observe_serve(&q, &e);
        let oh = observe_serve(&qh, &e);
        let strip = |o: &Observed| -> Vec<(String, String)> {
            o.headers
                .iter()
                .filter(|(n, _)| n != "date" && n != "last-modified")
                .cloned()
                .collect()
        };
        let mut ok = !og.panicked && !oh.panicked;
        let mut why = "panic".to_string();
        if ok && og.status != oh.status {
            ok = false;
            why = format!("status GET {} HEAD {}", og.status, oh.status);
        }
        if ok && strip(&og) != strip(&oh) {
            ok = false;
            why = format!("headers differ: GET {} HEAD {}", og.show(), oh.show());
        }
        if ok
            && og.header("last-modified").is_some() != oh.header("last-modified").is_some()
        {
            ok = false;
            why = "Last-Modified presence differs".into();
        }
        if ok && qh.method == "HEAD" {
            if oh.calls.iter().any(|c| matches!(c, Call::GetRange(..))) {
                ok = false;
                why = "HEAD called get_range".into();
            }
            let empty_expected = matches!(oh.status, 200..=399 | 416);
            if empty_expected && oh.plan != Plan::Empty {
                ok = false;
                why = format!("HEAD body not empty: {}", oh.show());
            }
            if !empty_expected && oh.plan != og.plan {
                ok = false;
                why = "HEAD error body differs from GET".into();
            }
            // draining the HEAD body must not touch the entity either
            if let Some((recs, calls)) = run_body(&qh, &e, &[], 3) {
                if !calls.is_empty() {
                    ok = false;
                    why = "HEAD body called get_range".into();
                }
                if empty_expected && recs.iter().any(|r| matches!(r.out, Out::Data(_))) {
                    ok = false;
                    why = "HEAD body produced data".into();
                }
            }
        }
        let p = pred(ok, || why.clone());
        em.case(&serve_line(&q, &e, og.now), &og.show(), &p, &format!("get:{}", status_class(&og)));
        em.case(&serve_line(&qh, &e, oh.now), &oh.show(), &p, &format!("head:{}", status_class(&oh)));
    }
}
